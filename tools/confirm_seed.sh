#!/bin/bash
# usage: confirm_seed.sh <prop> <n>  : confirm a candidate seeded change in a scratch worktree (outside /repo and /verif)
# writes /tmp/seedconfirm/<prop>_<n>.json
P=$1; N=$2
SRC=/tmp/seedout_$P/$N
OUT=/tmp/seedconfirm; mkdir -p $OUT
WT=/tmp/confirm_${P}_$N
rm -rf $WT; git -C /repo worktree add -q --detach $WT HEAD || exit 1
cd $WT
# demo without patch
PYTHONPATH=$WT/src timeout 300 /venv/bin/python $SRC/demo.py > $OUT/${P}_$N.demo_clean.log 2>&1; D0=$?
git apply $SRC/patch.diff; AP=$?
PYTHONPATH=$WT/src timeout 300 /venv/bin/python $SRC/demo.py > $OUT/${P}_$N.demo_patched.log 2>&1; D1=$?
IMP=$(PYTHONPATH=$WT/src /venv/bin/python -c "import aiortc; print(aiortc.__file__)")
PYTHONPATH=$WT/src timeout 1500 /venv/bin/python -m pytest -q -p no:cacheprovider --timeout=900 -x -q tests > $OUT/${P}_$N.suite.log 2>&1; S=$?
TAIL=$(tail -1 $OUT/${P}_$N.suite.log)
if [ $S -ne 0 ]; then
  # one retry for load-related flakes
  PYTHONPATH=$WT/src timeout 1500 /venv/bin/python -m pytest -q -p no:cacheprovider --timeout=900 -q tests > $OUT/${P}_$N.suite2.log 2>&1; S=$?
  TAIL=$(tail -1 $OUT/${P}_$N.suite2.log)
fi
cd /tmp
git -C /repo worktree remove --force $WT
echo "{\"prop\":\"$P\",\"n\":$N,\"apply\":$AP,\"demo_clean\":$D0,\"demo_patched\":$D1,\"suite\":$S,\"suite_tail\":\"$TAIL\",\"import\":\"$IMP\"}" > $OUT/${P}_$N.json
cat $OUT/${P}_$N.json
