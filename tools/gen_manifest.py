"""Regenerate MANIFEST.json from properties.py (claimed properties) and NOT_APPLICABLE below."""
import json, os, runpy, sys
ROOT = os.path.dirname(os.path.dirname(os.path.abspath(__file__)))
P = runpy.run_path(os.path.join(ROOT, "properties.py"))
props, na = P["PROPERTIES"], P["NOT_APPLICABLE"]
checks = []
for pid in sorted(props):
    p = props[pid]
    checks.append({
        "property_id": pid,
        "quick_cmd": f"./check {pid} --tier quick",
        "thorough_cmd": f"./check {pid} --tier thorough",
        "evidence_file": f"/verif/evidence/{pid}.json",
        "replay_cmd_template": "./check --replay {path}",
        "engine": "pyvc",
        "level_claimed": {"category": "proof", "text": p["claim"], "design_ref": p.get("design_ref", "DESIGN.md section 0")},
        "level_note": p["note"],
        "technique": "contracts on the real functions (sidecar), VCs generated from /repo's AST each run, discharged by z3/cvc5; counterexamples replayed on the real code",
    })
m = {
    "version": 1,
    "setup_cmd": "./setup.sh",
    "hooks": {
        "guard": "AIORTC_VERIF",
        "enable": "no source hooks: contracts are sidecar files under /verif/contracts keyed by qualified name and re-matched against /repo's AST on every run; the guard name is reserved and unused",
        "baseline_off_cmd": "cd /repo && /venv/bin/python -m pytest -ra -q -p no:cacheprovider --timeout=900 --continue-on-collection-errors",
        "source_commits": [],
        "add_only": True,
    },
    "engines": [{"name": "pyvc", "path": "/verif/pyvc", "serves_properties": sorted(props),
                 "kind_free_text": "weakest-precondition style symbolic executor over the Python AST of /repo (re-read every run) + sidecar contracts; SMT back ends z3 5.1 (python3-vt wheel) with /usr/bin/cvc5 fallback; replay of counter-models under /venv/bin/python"}],
    "checks": checks,
    "notes": P["NOTES"],
    "not_applicable": [{"property_id": k, "reason": v} for k, v in sorted(na.items())],
}
json.dump(m, open(os.path.join(ROOT, "MANIFEST.json"), "w"), indent=1)
print(f"{len(checks)} checks, {len(na)} not applicable")
