"""Developer self-test: seeded property-breaking edits on a scratch copy of /repo (never /repo itself).
Each mutant must make the named check exit 1 with a VIOLATION line; the unmodified copy must exit 0.
usage: python3-vt tools/mutants.py [scratch_dir]   (scratch dir is removed afterwards)"""
import os, shutil, subprocess, sys, tempfile
ROOT = os.path.dirname(os.path.dirname(os.path.abspath(__file__)))
MUTANTS = [
    ("C16", "src/aiortc/codecs/vpx.py", "size = min(length - pos, PACKET_MAX - len(descr_bytes))", "size = min(length - pos, PACKET_MAX)"),
    ("C16", "src/aiortc/codecs/vpx.py", 'unpack_from("!H", data, pos)[0] & 0x7FFF', 'unpack_from("!H", data, pos)[0] & 0x3FFF'),
    ("C16", "src/aiortc/codecs/vpx.py", "descr.partition_start = 0", "descr.partition_start = 1"),
    ("C18", "src/aiortc/rtcrtpreceiver.py", "return (lost_interval << 8) // expected_interval", "return (lost_interval << 9) // expected_interval"),
    ("C18", "src/aiortc/rtcrtpreceiver.py", "self.cycles += 1 << 16", "self.cycles += 1 << 15"),
    ("C18", "src/aiortc/rtcrtpreceiver.py", ") & 0xFFFFFFFF\n", ")\n"),
    ("C18", "src/aiortc/rtp.py", "return max(PACKETS_LOST_MIN, min(count, PACKETS_LOST_MAX))", "return max(PACKETS_LOST_MIN, min(count, PACKETS_LOST_MAX + 1))"),
    ("C08", "src/aiortc/rtcsctptransport.py", "                self.stream_id,\n                self.stream_seq,\n", "                self.stream_seq,\n                self.stream_id,\n"),
    ("C08", "src/aiortc/rtcsctptransport.py", "            if len(body) < 12 + 4 * (nb_gaps + nb_duplicates):", "            if len(body) < 12 + 4 * nb_gaps:"),
    ("C08", "src/aiortc/rtcsctptransport.py", "        if param_length < 4:", "        if param_length < 0:"),
    ("C05", "src/aiortc/rtcsctptransport.py", "            if len(body) < 4 or len(body) % 4:", "            if len(body) < 4:"),
    ("C05", "src/aiortc/rtp.py", "            if len(extension_value) < pos + x_length:\n                raise ValueError(\"RTP one-byte", "            if len(extension_value) < pos:\n                raise ValueError(\"RTP one-byte"),
    ("C07", "src/aiortc/rtp.py", "while mantissa > 0x3FFFF:", "while mantissa > 0x7FFFF:"),
    ("C15", "src/aiortc/rtp.py", "while mantissa > 0x3FFFF:", "while mantissa > 0x7FFFF:"),
    ("C05", "src/aiortc/rtp.py", "        if len(data) < 4 * count:", "        if len(data) < 2 * count:"),
    ("C07", "src/aiortc/rtp.py", "        fci = data[8:]", "        fci = data[9:]"),
    ("C17", "src/aiortc/utils.py", "half_mod = 0x8000", "half_mod = 0x7FFF"),
]


def run(pid, repo):
    env = dict(os.environ, PYVC_REPO=repo, PYVC_EVIDENCE=os.path.join(os.path.dirname(repo), "evidence"))
    p = subprocess.run([os.path.join(ROOT, "check"), pid, "--tier", "quick"], capture_output=True, text=True, env=env)
    v = [l for l in p.stdout.splitlines() if l.startswith("VIOLATION")]
    return p.returncode, v, p.stdout


def main():
    scratch = sys.argv[1] if len(sys.argv) > 1 else tempfile.mkdtemp(prefix="pyvc_mut_")
    repo = os.path.join(scratch, "repo")
    bad = 0
    try:
        os.makedirs(repo, exist_ok=True)
        shutil.copytree("/repo/src", os.path.join(repo, "src"), dirs_exist_ok=True)
        for pid in sorted({m[0] for m in MUTANTS}):
            rc, v, out = run(pid, repo)
            print(f"baseline {pid}: exit {rc}")
            bad += rc != 0
        for pid, rel, old, new in MUTANTS:
            path = os.path.join(repo, rel)
            src = open(path).read()
            if src.count(old) < 1:
                print(f"MUTANT-STALE {pid} {rel}: pattern not found: {old[:50]!r}")
                bad += 1
                continue
            open(path, "w").write(src.replace(old, new, 1))
            try:
                rc, v, out = run(pid, repo)
            finally:
                open(path, "w").write(src)
            ok = rc == 1 and v
            print(f"{'caught ' if ok else 'MISSED '} {pid} exit={rc} {rel}: {old.strip()[:45]!r} -> {new.strip()[:45]!r} :: {(v[0] if v else out.strip().splitlines()[-1])[:160]}")
            bad += not ok
    finally:
        shutil.rmtree(scratch, ignore_errors=True)
    return 1 if bad else 0


if __name__ == "__main__":
    sys.exit(main())
