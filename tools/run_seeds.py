"""Run the claimed checks against every stored seeded change (on a scratch copy of /repo/src, never /repo itself).
usage: python3-vt tools/run_seeds.py [seed-id-substring ...]     writes seeded/RESULTS.json and seeded/RESULTS.md
For each seed the checks whose units live in the files the patch touches are run (plus the seed's own property if it
has a check); 'caught' = some check exits 1 with a VIOLATION line, 'undecided' = exit 2 only, 'missed' = all exit 0."""
import json, os, re, shutil, subprocess, sys, tempfile, runpy
ROOT = os.path.dirname(os.path.dirname(os.path.abspath(__file__)))
sys.path.insert(0, ROOT)
from pyvc.contracts import load_sidecars

reg = load_sidecars(os.path.join(ROOT, "contracts"))
props = runpy.run_path(os.path.join(ROOT, "properties.py"))["PROPERTIES"]
# property -> set of source files its units live in
files_of = {}
for kind, name in reg.unit_order:
    if kind == "lemma":
        tags, mod = reg.lemmas[name].tags, None
    elif kind == "harness":
        tags, mod = reg.harnesses[name].tags, reg.harnesses[name].module
    else:
        tags, mod = reg.contracts[name].tags, name.split(":")[0]
    if mod:
        f = "src/" + mod.replace(".", "/") + ".py"
        for t in tags:
            files_of.setdefault(t, set()).add(f)
sel = sys.argv[1:]
seeds = sorted(d for d in os.listdir(os.path.join(ROOT, "seeded")) if d.startswith("S-") and (not sel or any(s in d for s in sel)))
results = {}
rp = os.path.join(ROOT, "seeded", "RESULTS.json")
if os.path.exists(rp) and sel:
    results = json.load(open(rp))
def run_one(sd):
    meta = json.load(open(os.path.join(ROOT, "seeded", sd, "meta.json")))
    patch = os.path.join(ROOT, "seeded", sd, "patch.diff")
    touched = set(meta["files"])
    checks = sorted(p for p in props if (files_of.get(p, set()) & touched) or p == meta["breaks_property"])
    scratch = tempfile.mkdtemp(prefix="seedrun_")
    try:
        os.makedirs(os.path.join(scratch, "repo"))
        shutil.copytree("/repo/src", os.path.join(scratch, "repo", "src"))
        subprocess.run(["git", "init", "-q", "."], cwd=os.path.join(scratch, "repo"))
        ap = subprocess.run(["git", "apply", patch], cwd=os.path.join(scratch, "repo"), capture_output=True, text=True)
        entry = {"property": meta["breaks_property"], "checks": {}, "verdict": "missed"}
        if ap.returncode != 0:
            entry["verdict"] = "patch-does-not-apply"
        for p in checks if ap.returncode == 0 else []:
            env = dict(os.environ, PYVC_REPO=os.path.join(scratch, "repo"), PYVC_EVIDENCE=os.path.join(scratch, "evidence"))
            r = subprocess.run([os.path.join(ROOT, "check"), p, "--tier", "quick"], capture_output=True, text=True, env=env)
            lines = [l for l in r.stdout.splitlines() if l.startswith(("VIOLATION", "  failed obligation", "UNDECIDED"))]
            entry["checks"][p] = {"exit": r.returncode, "first": [re.sub(r"replay=\S+", "replay=<scratch>", l)[:240] for l in lines[:3]]}
        exits = [c["exit"] for c in entry["checks"].values()]
        if 1 in exits:
            entry["verdict"] = "caught"
        elif 2 in exits:
            entry["verdict"] = "undecided"
        elif 3 in exits:
            entry["verdict"] = "checker-defect"
        if not checks:
            entry["verdict"] = "no-check-covers-these-files"
        results[sd] = entry
        print(sd, entry["verdict"], {p: c["exit"] for p, c in entry["checks"].items()}, flush=True)
    finally:
        shutil.rmtree(scratch, ignore_errors=True)

from concurrent.futures import ThreadPoolExecutor
with ThreadPoolExecutor(max_workers=int(os.environ.get("SEED_JOBS", "3"))) as ex:
    list(ex.map(run_one, seeds))
json.dump(results, open(rp, "w"), indent=1, sort_keys=True)
with open(os.path.join(ROOT, "seeded", "RESULTS.md"), "w") as fh:
    fh.write("| seed | breaks | verdict | checks run (exit) | first reported obligation |\n|---|---|---|---|---|\n")
    for sd in sorted(results):
        e = results[sd]
        first = ""
        for p, c in e["checks"].items():
            if c["exit"] == 1 and c["first"]:
                first = c["first"][0].replace("|", "/")[:150]
                break
        ran = ", ".join("%s:%s" % (p, c["exit"]) for p, c in e["checks"].items())
        fh.write("| %s | %s | %s | %s | %s |\n" % (sd, e["property"], e["verdict"], ran, first))
print("caught", sum(1 for e in results.values() if e["verdict"] == "caught"), "of", len(results))
