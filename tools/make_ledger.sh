#!/bin/sh
# Record which contract clauses are discharged on the pinned (unchanged) tree. Run by the maintainer of
# /verif after changing contracts; a check run never writes the ledger.  The old ledger is kept if any check fails.
cd "$(dirname "$0")/.." || exit 1
[ -f ledger.json ] && cp ledger.json ledger.json.bak
rm -f ledger.json
for p in $(python3-vt -c "import runpy;print(' '.join(sorted(runpy.run_path('properties.py')['PROPERTIES'])))"); do
  PYVC_WRITE_LEDGER=1 ./check "$p" --tier quick || { echo "check $p did not pass: ledger NOT updated"; [ -f ledger.json.bak ] && mv ledger.json.bak ledger.json; exit 1; }
done
rm -f ledger.json.bak
python3-vt -c "import json;print(len(json.load(open('ledger.json'))['clauses']),'clauses in ledger')"
