"""Developer self-test of the replay machinery: on the unchanged tree the bounded search (scenario + boundary inputs,
run-time reading of the contracts) must not report a violation for any unit.  A hit is either a genuine defect or a
defect of the replay/contract reading and must be looked at before the checks are trusted.
usage: python3-vt tools/selftest_replay.py [unit-substring]"""
import json, os, sys, subprocess, tempfile
ROOT = os.path.dirname(os.path.dirname(os.path.abspath(__file__)))
sys.path.insert(0, ROOT)
from pyvc.contracts import load_sidecars, split_unit
from pyvc import check as chk
from pyvc.frontend import Repo

reg = load_sidecars(os.path.join(ROOT, "contracts"))
repo = Repo()
cf = chk.class_fields(reg, repo)
sub = sys.argv[1] if len(sys.argv) > 1 else ""
bad = 0
units = []
for kind, name in reg.unit_order:
    if kind == "lemma":
        continue
    for u in chk.expand_instances(reg, name) if kind == "contract" else [name]:
        if sub in u:
            units.append(u)
tmp = tempfile.mkdtemp(prefix="selftest_", dir=os.path.join(ROOT, ".tmp") if os.path.isdir(os.path.join(ROOT, ".tmp")) else None)
for u in units:
    c = chk.contract_of(reg, u)
    types = chk.param_types_of(reg, repo, u)
    if not types or c is None or c.trusted:
        continue
    seeds = [json.loads(json.dumps({k: v for k, v in w.items() if k != "$instance"}, default=chk._enc))
             for w in c.witness if not (isinstance(w, dict) and "$instance" in w and w["$instance"] != split_unit(u)[1])]
    spec = {"unit": u, "obligation": {"oid": u + "::selftest"}, "search": {"n": 300, "seed": 1, "types": types, "classes": cf, "seeds": seeds}}
    path = os.path.join(tmp, "s.json")
    json.dump(spec, open(path, "w"))
    rr = chk.run_replay(path, timeout=300)
    flag = "OK " if rr.get("status") == "ok" else "HIT"
    if rr.get("status") != "ok":
        bad += 1
    print(flag, u, {k: rr.get(k) for k in ("status", "kind", "clause", "detail", "tried", "satisfied", "found_by")})
import shutil
shutil.rmtree(tmp, ignore_errors=True)
sys.exit(1 if bad else 0)
