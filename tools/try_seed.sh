#!/bin/bash
# usage: try_seed.sh <patch.diff> <PROP> [<PROP> ...]
# Applies the patch to a scratch copy of /repo/src (never /repo itself), runs the named checks against that copy with
# evidence redirected to the scratch dir, prints each check's exit code and VIOLATION lines, removes the copy.
PATCH=$(readlink -f "$1"); shift
S=$(mktemp -d /tmp/tryseed_XXXX)
mkdir -p $S/repo && cp -r /repo/src $S/repo/src && (cd $S/repo && git init -q . 2>/dev/null; git apply "$PATCH") || { echo "patch does not apply"; rm -rf $S; exit 3; }
for P in "$@"; do
  PYVC_REPO=$S/repo PYVC_EVIDENCE=$S/evidence /verif/check $P --tier quick > $S/$P.out 2>&1; rc=$?
  echo "== $P exit=$rc"; grep -E "^(VIOLATION|UNDECIDED|CHECKER|KNOWN|  failed obligation)" $S/$P.out | cut -c1-260 | head -8; tail -1 $S/$P.out | cut -c1-200
done
rm -rf $S
