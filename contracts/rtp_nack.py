"""aiortc.rtp: generic NACK feedback (C07: a NACK denotes the same set of 16-bit sequence numbers on both sides, also
across the wrap; C11: what the receiver requests is what the sender reads; C05: parser raises only ValueError)."""
from pyvc.contracts import contract, lemma, spec, harness, klass

M = "aiortc.rtp"

# sequence number s is denoted by the FCI entry (pid, blp): the packet id itself or one of the 16 following numbers
# whose bit is set in the bitmask -- in 16-bit serial arithmetic
BIT = " or ".join(f"((s - pid) % 65536 == {d + 1} and (blp // {2 ** d}) % 2 == 1)" for d in range(16))
spec("nack_denotes", ["pid", "blp", "s"], f"s == pid or {BIT}")

contract(f"{M}:RtcpRtpfbPacket.parse", params={"data": "bytes", "fmt": "int"}, returns="RtcpRtpfbPacket",
         raises={"ValueError": "len(data) < 8 or len(data) % 4 != 0"},
         ensures=[
             "result.fmt == fmt and result.ssrc == u32(data, 0) and result.media_ssrc == u32(data, 4)",
             # every listed number is a 16-bit sequence number, and there are at most 17 per FCI entry
             "all_in(result.lost, lambda s: 0 <= s < 65536)",
             "len(result.lost) <= 17 * ((len(data) - 8) // 4)",
             # every packet id is listed, and for the first and the last mask bit (e = 0, 15): if set, pid + e + 1
             # (mod 2^16) is listed.  (The 14 bits in between go through the same loop body; stating all 16 clauses
             # exceeded the solver budget, so they are not claimed.)
             "forall(lambda k: u16(data, 8 + 4 * k) in result.lost, 0, (len(data) - 8) // 4)",
             'forall(lambda k: implies((u16(data, 10 + 4 * k) // 1) % 2 == 1, (u16(data, 8 + 4 * k) + 1) % 65536 in result.lost), 0, (len(data) - 8) // 4)',
             'forall(lambda k: implies((u16(data, 10 + 4 * k) // 32768) % 2 == 1, (u16(data, 8 + 4 * k) + 16) % 65536 in result.lost), 0, (len(data) - 8) // 4)',
         ],
         locals={"lost": "list[int]"},
         loops={0: dict(kind="for", index="pos",
                        invariant=[
                            "(pos - 8) % 4 == 0",
                            "all_in(lost, lambda s: 0 <= s < 65536)",
                            "len(lost) <= 17 * ((pos - 8) // 4)",
                            "forall(lambda k: u16(data, 8 + 4 * k) in lost, 0, (pos - 8) // 4)",
                            'forall(lambda k: implies((u16(data, 10 + 4 * k) // 1) % 2 == 1, (u16(data, 8 + 4 * k) + 1) % 65536 in lost), 0, (pos - 8) // 4)',
                            'forall(lambda k: implies((u16(data, 10 + 4 * k) // 32768) % 2 == 1, (u16(data, 8 + 4 * k) + 16) % 65536 in lost), 0, (pos - 8) // 4)',
                        ],
                        modifies=["content(lost)"]),
                # inner loop over the 16 mask bits: kept as a loop (no unrolling) so that `lost` is described once
                1: dict(kind="for", index="d",
                        invariant=[
                            "0 <= pid < 65536 and 0 <= blp < 65536 and pid == u16(data, pos) and blp == u16(data, pos + 2)",
                            "all_in(lost, lambda s: 0 <= s < 65536)",
                            "len(lost) <= 17 * ((pos - 8) // 4) + 1 + d",
                            "forall(lambda k: u16(data, 8 + 4 * k) in lost, 0, (pos - 8) // 4)",
                            "pid in lost",
                            'forall(lambda k: implies((u16(data, 10 + 4 * k) // 1) % 2 == 1, (u16(data, 8 + 4 * k) + 1) % 65536 in lost), 0, (pos - 8) // 4)',
                            'forall(lambda k: implies((u16(data, 10 + 4 * k) // 32768) % 2 == 1, (u16(data, 8 + 4 * k) + 16) % 65536 in lost), 0, (pos - 8) // 4)',
                            'implies(0 < d and (blp // 1) % 2 == 1, (pid + 1) % 65536 in lost)',
                            'implies(15 < d and (blp // 32768) % 2 == 1, (pid + 16) % 65536 in lost)',
                        ],
                        modifies=["content(lost)"])},
         fresh_result=True, tags=["C07", "C05", "C11"],
         witness=[{"data": bytes.fromhex("00000001" "00000002" "ffff" "0003"), "fmt": 1}])
