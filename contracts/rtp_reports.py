"""aiortc.rtp: receiver-report packets (C07 round trip, C05 parser, C18 'building a receiver report never fails')."""
from pyvc.contracts import contract, lemma, spec, harness, klass

M = "aiortc.rtp"
klass(f"{M}:RtcpRrPacket", fields={"ssrc": "int", "reports": "list[RtcpReceiverInfo]"})

RR_OK = ("0 <= {0}.ssrc < (1 << 32) and len({0}.reports) < 32 and "
         "all_in({0}.reports, lambda r: ri_wire_ok(r))")

contract(f"{M}:RtcpRrPacket.__bytes__", returns="bytes",
         requires=[RR_OK.format("self")],
         raises={},
         ensures=["len(result) == 8 + 24 * len(self.reports)",
                  "result[0] == 128 + len(self.reports) and result[1] == 201 and u16(result, 2) == 1 + 6 * len(self.reports)",
                  "u32(result, 4) == self.ssrc",
                  "forall(lambda j: ri_at(result, 8 + 24 * j, self.reports[j]), 0, len(self.reports))"],
         loops={0: dict(kind="for", index="i",
                        invariant=["len(payload) == 4 + 24 * i", "u32(payload, 0) == self.ssrc",
                                   "forall(lambda j: ri_at(payload, 4 + 24 * j, self.reports[j]), 0, i)"])},
         tags=["C07", "C18"],
         witness=[{"self": {"$class": "RtcpRrPacket", "ssrc": 7, "reports": [
             {"$class": "RtcpReceiverInfo", "ssrc": 1, "fraction_lost": 2, "packets_lost": -3, "highest_sequence": 70000,
              "jitter": 5, "lsr": 6, "dlsr": 7}]}}])

contract(f"{M}:RtcpRrPacket.parse", params={"data": "bytes", "count": "int"}, returns="RtcpRrPacket",
         raises={"ValueError": "len(data) != 4 + 24 * count"},
         ensures=["result.ssrc == u32(data, 0)", "len(result.reports) == count",
                  "forall(lambda j: ri_at(data, 4 + 24 * j, result.reports[j]) and ri_wire_ok(result.reports[j]), 0, count)"],
         locals={"reports": "list[RtcpReceiverInfo]"},
         loops={0: dict(kind="for", index="r",
                        invariant=["pos == 4 + 24 * r", "len(reports) == r", "fresh(reports)",
                                   "forall(lambda j: ri_wire_ok(reports[j]), 0, r)",
                                   "forall(lambda j: ri_at(data, 4 + 24 * j, reports[j]), 0, r)"],
                        modifies=["content(reports)"])},
         fresh_result=True, tags=["C07", "C05"],
         witness=[{"data": bytes(range(28)), "count": 1}])

harness("roundtrip_rr_packet", M, """
def h(x):
    b = bytes(x)
    return RtcpRrPacket.parse(b[4:], b[0] & 0x1F)
""", params={"x": "RtcpRrPacket"}, returns="RtcpRrPacket",
        requires=[RR_OK.format("x")], raises={},
        ensures=["result.ssrc == x.ssrc", "len(result.reports) == len(x.reports)",
                 "forall(lambda j: result.reports[j] == x.reports[j], 0, len(x.reports))"],
        tags=["C07"])
