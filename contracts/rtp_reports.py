"""aiortc.rtp: receiver-report packets (C07 round trip, C05 parser, C18 'building a receiver report never fails')."""
from pyvc.contracts import contract, lemma, spec, harness, klass

M = "aiortc.rtp"
klass(f"{M}:RtcpRrPacket", fields={"ssrc": "int", "reports": "list[RtcpReceiverInfo]"})

RR_OK = ("0 <= {0}.ssrc < (1 << 32) and len({0}.reports) < 32 and "
         "all_in({0}.reports, lambda r: ri_wire_ok(r))")

contract(f"{M}:RtcpRrPacket.__bytes__", returns="bytes",
         requires=[RR_OK.format("self")],
         raises={},
         ensures=["len(result) == 8 + 24 * len(self.reports)",
                  "result[0] == 128 + len(self.reports) and result[1] == 201 and u16(result, 2) == 1 + 6 * len(self.reports)",
                  "u32(result, 4) == self.ssrc",
                  "forall(lambda j: ri_at(result, 8 + 24 * j, self.reports[j]), 0, len(self.reports))"],
         loops={0: dict(kind="for", index="i",
                        invariant=["len(payload) == 4 + 24 * i", "u32(payload, 0) == self.ssrc",
                                   "forall(lambda j: ri_at(payload, 4 + 24 * j, self.reports[j]), 0, i)"])},
         tags=["C07", "C18"],
         witness=[{"self": {"$class": "RtcpRrPacket", "ssrc": 7, "reports": [
             {"$class": "RtcpReceiverInfo", "ssrc": 1, "fraction_lost": 2, "packets_lost": -3, "highest_sequence": 70000,
              "jitter": 5, "lsr": 6, "dlsr": 7}]}}])

contract(f"{M}:RtcpRrPacket.parse", params={"data": "bytes", "count": "int"}, returns="RtcpRrPacket",
         raises={"ValueError": "len(data) != 4 + 24 * count"},
         ensures=["result.ssrc == u32(data, 0)", "len(result.reports) == count",
                  "forall(lambda j: ri_at(data, 4 + 24 * j, result.reports[j]) and ri_wire_ok(result.reports[j]), 0, count)"],
         locals={"reports": "list[RtcpReceiverInfo]"},
         loops={0: dict(kind="for", index="r",
                        invariant=["pos == 4 + 24 * r", "len(reports) == r", "fresh(reports)",
                                   "forall(lambda j: ri_wire_ok(reports[j]), 0, r)",
                                   "forall(lambda j: ri_at(data, 4 + 24 * j, reports[j]), 0, r)"],
                        modifies=["content(reports)"])},
         fresh_result=True, tags=["C07", "C05"],
         witness=[{"data": bytes(range(28)), "count": 1}])

# the harness returns the wire bytes and the slice handed to the parser too, so that the argument can be stated in steps
# (each clause is assumed for the next); the round trip proper is the last three clauses
harness("roundtrip_rr_packet", M, """
def h(x):
    b = bytes(x)
    d = b[4:]
    return (b, d, RtcpRrPacket.parse(d, b[0] & 0x1F))
""", params={"x": "RtcpRrPacket"}, returns="tuple[bytes,bytes,RtcpRrPacket]",
        requires=[RR_OK.format("x")], raises={},
        ensures=["len(result[0]) == 8 + 24 * len(x.reports) and len(result[2].reports) == len(x.reports)",
                 "len(result[1]) == 4 + 24 * len(x.reports) and result[1] == result[0][4:]",
                 "forall(lambda j: ri_at(result[0], 8 + 24 * j, x.reports[j]), 0, len(x.reports))",
                 "forall(lambda j: ri_at(result[1], 4 + 24 * j, result[2].reports[j]), 0, len(x.reports))",
                 "forall(lambda j: ri_at(result[0], 8 + 24 * j, result[2].reports[j]), 0, len(x.reports))",
                 "result[2].ssrc == x.ssrc", "len(result[2].reports) == len(x.reports)",
                 "forall(lambda j: result[2].reports[j] == x.reports[j], 0, len(x.reports))"],
        tags=["C07"])

# ---------------------------------------------------------------------------- sender reports (same shape, 20 more bytes)
klass(f"{M}:RtcpSrPacket", fields={"ssrc": "int", "sender_info": "RtcpSenderInfo", "reports": "list[RtcpReceiverInfo]"})

SR_OK = ("0 <= {0}.ssrc < (1 << 32) and si_wire_ok({0}.sender_info) and len({0}.reports) < 32 and "
         "all_in({0}.reports, lambda r: ri_wire_ok(r))")

contract(f"{M}:RtcpSrPacket.__bytes__", returns="bytes",
         requires=[SR_OK.format("self")],
         raises={},
         ensures=["len(result) == 28 + 24 * len(self.reports)",
                  "result[0] == 128 + len(self.reports) and result[1] == 200 and u16(result, 2) == 6 + 6 * len(self.reports)",
                  "u32(result, 4) == self.ssrc", "si_at(result, 8, self.sender_info)",
                  "forall(lambda j: ri_at(result, 28 + 24 * j, self.reports[j]), 0, len(self.reports))"],
         loops={0: dict(kind="for", index="i",
                        invariant=["len(payload) == 24 + 24 * i", "u32(payload, 0) == self.ssrc",
                                   "si_at(payload, 4, self.sender_info)",
                                   "forall(lambda j: ri_at(payload, 24 + 24 * j, self.reports[j]), 0, i)"])},
         tags=["C07"],
         witness=[{"self": {"$class": "RtcpSrPacket", "ssrc": 7,
                            "sender_info": {"$class": "RtcpSenderInfo", "ntp_timestamp": 1 << 40, "rtp_timestamp": 2,
                                            "packet_count": 3, "octet_count": 4},
                            "reports": [{"$class": "RtcpReceiverInfo", "ssrc": 1, "fraction_lost": 2, "packets_lost": -3,
                                         "highest_sequence": 70000, "jitter": 5, "lsr": 6, "dlsr": 7}]}}])

contract(f"{M}:RtcpSrPacket.parse", params={"data": "bytes", "count": "int"}, returns="RtcpSrPacket",
         requires=["0 <= count < 32"],      # the 5-bit count of the RTCP header (RtcpPacket.parse is the only caller)
         raises={"ValueError": "len(data) != 24 + 24 * count"},
         ensures=["result.ssrc == u32(data, 0)", "si_at(data, 4, result.sender_info) and si_wire_ok(result.sender_info)",
                  "len(result.reports) == count",
                  "forall(lambda j: ri_at(data, 24 + 24 * j, result.reports[j]), 0, count)",
                  "forall(lambda j: ri_wire_ok(result.reports[j]), 0, count)"],
         locals={"reports": "list[RtcpReceiverInfo]"},
         loops={0: dict(kind="for", index="r",
                        invariant=["pos == 24 + 24 * r", "len(reports) == r", "fresh(reports)",
                                   "si_at(data, 4, sender_info) and si_wire_ok(sender_info)",
                                   "forall(lambda j: ri_wire_ok(reports[j]), 0, r)",
                                   "forall(lambda j: ri_at(data, 24 + 24 * j, reports[j]), 0, r)"],
                        modifies=["content(reports)"])},
         fresh_result=True, tags=["C07", "C05"],
         witness=[{"data": bytes(range(48)), "count": 1}])

harness("roundtrip_sr_packet", M, """
def h(x):
    b = bytes(x)
    d = b[4:]
    return (b, d, RtcpSrPacket.parse(d, b[0] & 0x1F))
""", params={"x": "RtcpSrPacket"}, returns="tuple[bytes,bytes,RtcpSrPacket]",
        requires=[SR_OK.format("x")], raises={},
        ensures=["len(result[0]) == 28 + 24 * len(x.reports) and len(result[2].reports) == len(x.reports)",
                 "len(result[1]) == 24 + 24 * len(x.reports) and result[1] == result[0][4:]",
                 "forall(lambda j: ri_at(result[0], 28 + 24 * j, x.reports[j]), 0, len(x.reports))",
                 "forall(lambda j: ri_at(result[1], 24 + 24 * j, result[2].reports[j]), 0, len(x.reports))",
                 "forall(lambda j: ri_at(result[0], 28 + 24 * j, result[2].reports[j]), 0, len(x.reports))",
                 "result[2].ssrc == x.ssrc", "result[2].sender_info == x.sender_info",
                 "forall(lambda j: result[2].reports[j] == x.reports[j], 0, len(x.reports))"],
        tags=["C07"])

# ---------------------------------------------------------------------------- compound RTCP: the dispatch layer (C05)
contract(f"{M}:RtcpPacket.parse", params={"data": "bytes"}, returns="list[any]",
         raises={"ValueError": None},
         ensures=["len(result) >= 0"],
         locals={"packets": "list[any]"},
         loops={0: dict(kind="while", invariant=["0 <= pos <= len(data)"], decreases="len(data) - pos")},
         tags=["C05"], witness=[{"data": bytes.fromhex("81c90007" "00000007") + bytes(range(24))}])
