"""aiortc.rtcdtlstransport: RtpRouter (C12: bundled RTP/RTCP goes to exactly the right receivers and senders, and
never to an unregistered one).

Receivers and senders are protocol objects: opaque references (`any`), compared by identity.
Invariant: every receiver mentioned by the SSRC table, a payload-type set or the MID table is currently registered.
Because it is a pre- and postcondition of every operation, "nothing is routed to it again" holds for every
interleaving of registrations, unregistrations and packets without a history argument."""
from pyvc.contracts import contract, lemma, spec, harness, klass

M = "aiortc.rtcdtlstransport"
T = ["C12"]
klass(f"{M}:RtpRouter",
      fields={"receivers": "set[any]", "senders": "dict[int,any]", "mid_table": "dict[int,any]",   # MID strings are used only as dictionary keys: modelled as opaque ids

              "ssrc_table": "dict[int,any]", "payload_type_table": "dict[int,set[any]]"},
      invariant=[
          # the five containers are distinct objects (they share a heap map per container type in the encoding)
          "not same(self.senders, self.ssrc_table) and not same(self.senders, self.payload_type_table) and "
          "not same(self.ssrc_table, self.payload_type_table) and not same(self.mid_table, self.senders) and "
          "not same(self.mid_table, self.ssrc_table) and not same(self.mid_table, self.payload_type_table)",
          "all_in(self.payload_type_table, lambda pt: not same(self.payload_type_table[pt], self.receivers))",
          "all_in(self.ssrc_table, lambda k: self.ssrc_table[k] is not None) and all_in(self.receivers, lambda r: r is not None)",
          "all_in(self.ssrc_table, lambda k: self.ssrc_table[k] in self.receivers)",
          "all_in(self.mid_table, lambda k: self.mid_table[k] in self.receivers)",
          "all_in(self.payload_type_table, lambda pt: all_in(self.payload_type_table[pt], lambda r: r in self.receivers))",
      ])

contract(f"{M}:RtpRouter.__init__",
         ensures=["len(self.ssrc_table) == 0 and len(self.senders) == 0 and len(self.receivers) == 0"],
         modifies=["self.receivers", "self.senders", "self.mid_table", "self.ssrc_table", "self.payload_type_table"],
         tags=T)

contract(f"{M}:RtpRouter.register_sender", params={"sender": "any", "ssrc": "int"},
         ensures=["ssrc in self.senders and same(self.senders[ssrc], sender)",
                  "all_in(self.senders, lambda k: k == ssrc or (old(k in self.senders) and same(self.senders[k], old(self.senders[k]))))",
                  "all_in(old(self.senders), lambda k: k in self.senders)"],
         modifies=["content(self.senders)"], tags=T)

contract(f"{M}:RtpRouter.route_rtp", params={"packet": "RtpPacket"}, returns="opt[any]",
         raises={},
         ensures=[
             # whatever is returned is a currently registered receiver
             "implies(result is not None, result in self.receivers)",
             # known SSRC whose receiver accepts the payload type: that receiver, nothing changes
             "implies(old(packet.ssrc in self.ssrc_table) and old(packet.payload_type in self.payload_type_table) and "
             "old(self.ssrc_table[packet.ssrc] in self.payload_type_table[packet.payload_type]), "
             "same(result, old(self.ssrc_table[packet.ssrc])))",
             # known SSRC whose receiver does not accept the payload type: dropped
             "implies(old(packet.ssrc in self.ssrc_table) and not (old(packet.payload_type in self.payload_type_table) and "
             "old(self.ssrc_table[packet.ssrc] in self.payload_type_table[packet.payload_type])), result is None)",
             # unknown SSRC: the only receiver accepting the payload type, and the SSRC sticks to it
             "implies(not old(packet.ssrc in self.ssrc_table) and old(packet.payload_type in self.payload_type_table) and "
             "old(len(self.payload_type_table[packet.payload_type])) == 1, result is not None and "
             "old(result in self.payload_type_table[packet.payload_type]) and "
             "packet.ssrc in self.ssrc_table and same(self.ssrc_table[packet.ssrc], result))",
             # unknown SSRC and no or several candidates: dropped
             "implies(not old(packet.ssrc in self.ssrc_table) and not (old(packet.payload_type in self.payload_type_table) and "
             "old(len(self.payload_type_table[packet.payload_type])) == 1), result is None)",
             # the SSRC table changes only by latching the new SSRC
             "all_in(self.ssrc_table, lambda k: (k == packet.ssrc and result is not None) or "
             "(old(k in self.ssrc_table) and same(self.ssrc_table[k], old(self.ssrc_table[k]))))",
             "all_in(old(self.ssrc_table), lambda k: k in self.ssrc_table and same(self.ssrc_table[k], old(self.ssrc_table[k])))",
         ],
         modifies=["content(self.ssrc_table)"], tags=T)

contract(f"{M}:RtpRouter.__discard", params={"d": "dict[int,any]", "value": "any"},
         invariants=False,
         ensures=["all_in(d, lambda k: old(k in d) and same(d[k], old(d[k])) and not same(d[k], value))",
                  "all_in(old(d), lambda k: (k in d) == (not same(old(d[k]), value)))"],
         loops={0: dict(kind="for", index="i",
                        invariant=["all_in(d, lambda k: old(k in d) and same(d[k], old(d[k])))",
                                   # key number j of the snapshot is still present unless it was processed and matched
                                   "forall(lambda j: (loop_seq(0)[j][0] in d) == (not (j < i and same(loop_seq(0)[j][1], value))), "
                                   "0, len(loop_seq(0)))",
                                   "forall(lambda j: old(loop_seq(0)[j][0] in d) and same(loop_seq(0)[j][1], old(d[loop_seq(0)[j][0]])), "
                                   "0, len(loop_seq(0)))"],
                        modifies=["content(d)"])},
         modifies=["content(d)"], tags=T)

contract(f"{M}:RtpRouter.unregister_sender", params={"sender": "any"},
         ensures=["all_in(self.senders, lambda k: old(k in self.senders) and same(self.senders[k], old(self.senders[k])) and "
                  "not same(self.senders[k], sender))",
                  "all_in(old(self.senders), lambda k: (k in self.senders) == (not same(old(self.senders[k]), sender)))"],
         modifies=["content(self.senders)"], tags=T)

contract(f"{M}:RtpRouter.unregister_receiver", params={"receiver": "any"},
         ensures=[
             # afterwards the receiver occurs nowhere in the router
             "not (receiver in self.receivers)",
             "all_in(self.ssrc_table, lambda k: not same(self.ssrc_table[k], receiver))",
             "all_in(self.mid_table, lambda k: not same(self.mid_table[k], receiver))",
             "all_in(self.payload_type_table, lambda pt: not (receiver in self.payload_type_table[pt]))",
             # and everything else is as before
             "all_in(old(self.receivers), lambda r: same(r, receiver) or r in self.receivers)",
             "all_in(old(self.ssrc_table), lambda k: (k in self.ssrc_table) == (not same(old(self.ssrc_table[k]), receiver)))",
             "all_in(self.ssrc_table, lambda k: old(k in self.ssrc_table) and same(self.ssrc_table[k], old(self.ssrc_table[k])))",
             "all_in(old(self.payload_type_table), lambda pt: pt in self.payload_type_table and "
             "same(self.payload_type_table[pt], old(self.payload_type_table[pt])))",
         ],
         loops={0: dict(kind="for", index="i",
                        invariant=["not (receiver in self.receivers)",
                                   "all_in(old(self.receivers), lambda r: same(r, receiver) or r in self.receivers)",
                                   "all_in(self.receivers, lambda r: old(r in self.receivers))",
                                   "forall(lambda j: not (receiver in loop_seq(0)[j][1]), 0, i)",
                                   # sets only shrink, and only by the receiver
                                   "all_in(self.payload_type_table, lambda pt: all_in(self.payload_type_table[pt], "
                                   "lambda r: r in self.receivers or same(r, receiver)))"],
                        modifies=["*set<Ref>"])},
         modifies=["content(self.receivers)", "content(self.ssrc_table)", "content(self.mid_table)", "*set<Ref>"],
         tags=T)

contract(f"{M}:RtpRouter.register_receiver",
         params={"receiver": "any", "ssrcs": "list[int]", "payload_types": "list[int]", "mid": "opt[int]"},
         requires=["receiver is not None"],
         ensures=[
             "receiver in self.receivers",
             "all_in(ssrcs, lambda s: s in self.ssrc_table and same(self.ssrc_table[s], receiver))",
             "all_in(payload_types, lambda pt: pt in self.payload_type_table and receiver in self.payload_type_table[pt])",
             "implies(mid is not None, mid in self.mid_table and same(self.mid_table[mid], receiver))",
             # nothing else is touched: other SSRC entries keep their receiver, sets only gain this receiver
             "all_in(self.ssrc_table, lambda k: same(self.ssrc_table[k], receiver) or "
             "(old(k in self.ssrc_table) and same(self.ssrc_table[k], old(self.ssrc_table[k]))))",
             "all_in(old(self.ssrc_table), lambda k: k in self.ssrc_table)",
             "all_in(old(self.receivers), lambda r: r in self.receivers)",
             "all_in(self.receivers, lambda r: same(r, receiver) or old(r in self.receivers))",
         ],
         loops={0: dict(kind="for", index="i",
                        invariant=["forall(lambda j: ssrcs[j] in self.ssrc_table and same(self.ssrc_table[ssrcs[j]], receiver), 0, i)",
                                   "all_in(self.ssrc_table, lambda k: same(self.ssrc_table[k], receiver) or "
                                   "(old(k in self.ssrc_table) and same(self.ssrc_table[k], old(self.ssrc_table[k]))))",
                                   "all_in(old(self.ssrc_table), lambda k: k in self.ssrc_table)",
                                   "all_in(self.ssrc_table, lambda k: self.ssrc_table[k] is not None and self.ssrc_table[k] in self.receivers)"],
                        modifies=["content(self.ssrc_table)"]),
                1: dict(kind="for", index="i",
                        invariant=["forall(lambda j: payload_types[j] in self.payload_type_table and "
                                   "receiver in self.payload_type_table[payload_types[j]], 0, i)",
                                   "all_in(self.payload_type_table, lambda pt: not same(self.payload_type_table[pt], self.receivers))",
                                   "all_in(self.payload_type_table, lambda pt: all_in(self.payload_type_table[pt], lambda r: r in self.receivers))",
                                   "receiver in self.receivers", "all_in(self.receivers, lambda r: r is not None)",
                                   "all_in(old(self.receivers), lambda r: r in self.receivers)",
                                   "all_in(self.receivers, lambda r: same(r, receiver) or old(r in self.receivers))"],
                        modifies=["content(self.payload_type_table)", "*set<Ref>"])},
         modifies=["content(self.receivers)", "content(self.mid_table)", "content(self.ssrc_table)",
                   "content(self.payload_type_table)", "*set<Ref>"],
         merge=False, tags=T)

# route_rtcp dispatches on the packet class; it is verified once per RTCP packet class (type parameter PKT)
RTCP_KINDS = [{"PKT": k} for k in ("RtcpSrPacket", "RtcpRrPacket", "RtcpByePacket", "RtcpRtpfbPacket", "RtcpPsfbPacket",
                                   "RtcpSdesPacket")]
klass("aiortc.rtp:RtcpRtpfbPacket", fields={"fmt": "int", "ssrc": "int", "media_ssrc": "int", "lost": "list[int]"})
contract(f"{M}:RtpRouter.route_rtcp", params={"packet": "$PKT"}, returns="set[any]",
         raises={},
         ensures=[
             "fresh(result)",
             # nothing is routed to an object that is not currently registered
             "all_in(result, lambda x: x is not None)",
             # sender report: the receiver of the reporting SSRC ...
             "@PKT=RtcpSrPacket: implies(packet.ssrc in self.ssrc_table, self.ssrc_table[packet.ssrc] in result)",
             # ... and, like a receiver report, the senders of the SSRCs reported on
             "@PKT=RtcpSrPacket: all_in(packet.reports, lambda r: implies(r.ssrc in self.senders and self.senders[r.ssrc] is not None, self.senders[r.ssrc] in result))",
             "@PKT=RtcpRrPacket: all_in(packet.reports, lambda r: implies(r.ssrc in self.senders and self.senders[r.ssrc] is not None, self.senders[r.ssrc] in result))",
             "@PKT=RtcpSrPacket: all_in(result, lambda x: (packet.ssrc in self.ssrc_table and same(x, self.ssrc_table[packet.ssrc])) or "
             "exists(lambda j: packet.reports[j].ssrc in self.senders and same(x, self.senders[packet.reports[j].ssrc]), 0, len(packet.reports)))",
             "@PKT=RtcpRrPacket: all_in(result, lambda x: "
             "exists(lambda j: packet.reports[j].ssrc in self.senders and same(x, self.senders[packet.reports[j].ssrc]), 0, len(packet.reports)))",
             # BYE: the receivers of the listed sources
             "@PKT=RtcpByePacket: all_in(packet.sources, lambda s: implies(s in self.ssrc_table, self.ssrc_table[s] in result))",
             "@PKT=RtcpByePacket: all_in(result, lambda x: "
             "exists(lambda j: packet.sources[j] in self.ssrc_table and same(x, self.ssrc_table[packet.sources[j]]), 0, len(packet.sources)))",
             # generic feedback (NACK ...): the sender of the media SSRC only
             "@PKT=RtcpRtpfbPacket: implies(packet.media_ssrc in self.senders and self.senders[packet.media_ssrc] is not None, "
             "self.senders[packet.media_ssrc] in result)",
             "@PKT=RtcpRtpfbPacket: all_in(result, lambda x: packet.media_ssrc in self.senders and same(x, self.senders[packet.media_ssrc]))",
             # payload-specific feedback: the sender of the media SSRC, and for REMB the senders listed in the FCI
             "@PKT=RtcpPsfbPacket: implies(packet.media_ssrc in self.senders and self.senders[packet.media_ssrc] is not None, "
             "self.senders[packet.media_ssrc] in result)",
             "@PKT=RtcpPsfbPacket: implies(packet.fmt == 15 and len(packet.fci) >= 8 and packet.fci[0:4] == b'REMB' and "
             "len(packet.fci) >= 8 + 4 * packet.fci[4], forall(lambda j: implies(u32(packet.fci, 8 + 4 * j) in self.senders and "
             "self.senders[u32(packet.fci, 8 + 4 * j)] is not None, self.senders[u32(packet.fci, 8 + 4 * j)] in result), 0, packet.fci[4]))",
             "@PKT=RtcpSdesPacket: len(result) == 0",
         ],
         locals={"recipients": "set[any]"},
         loops={0: dict(kind="for", index="i",   # BYE sources
                        invariant=["fresh(recipients)", "all_in(recipients, lambda x: x is not None)", "wit(i)",
                                   "forall(lambda j: implies(packet.sources[j] in self.ssrc_table, self.ssrc_table[packet.sources[j]] in recipients), 0, i)",
                                   "all_in(recipients, lambda x: exists(lambda j: j < i and packet.sources[j] in self.ssrc_table and "
                                   "same(x, self.ssrc_table[packet.sources[j]]), 0, len(packet.sources)))"],
                        modifies=["content(recipients)"]),
                1: dict(kind="for", index="i",   # SR / RR reports
                        invariant=["fresh(recipients)", "all_in(recipients, lambda x: x is not None)", "wit(i)",
                                   "implies(isinstance(packet, RtcpSrPacket) and packet.ssrc in self.ssrc_table, self.ssrc_table[packet.ssrc] in recipients)",
                                   "forall(lambda j: implies(packet.reports[j].ssrc in self.senders and self.senders[packet.reports[j].ssrc] is not None, "
                                   "self.senders[packet.reports[j].ssrc] in recipients), 0, i)",
                                   "all_in(recipients, lambda x: (isinstance(packet, RtcpSrPacket) and packet.ssrc in self.ssrc_table and same(x, self.ssrc_table[packet.ssrc])) or "
                                   "exists(lambda j: j < i and packet.reports[j].ssrc in self.senders and same(x, self.senders[packet.reports[j].ssrc]), 0, len(packet.reports)))"],
                        modifies=["content(recipients)"]),
                2: dict(kind="for", index="i",   # REMB SSRC list
                        invariant=["fresh(recipients)", "all_in(recipients, lambda x: x is not None)",
                                   "len(loop_seq(2)) == packet.fci[4]",
                                   "forall(lambda j: loop_seq(2)[j] == u32(packet.fci, 8 + 4 * j), 0, len(loop_seq(2)))",
                                   "forall(lambda j: implies(u32(packet.fci, 8 + 4 * j) in self.senders and "
                                   "self.senders[u32(packet.fci, 8 + 4 * j)] is not None, "
                                   "self.senders[u32(packet.fci, 8 + 4 * j)] in recipients), 0, i)",
                                   "implies(packet.media_ssrc in self.senders and self.senders[packet.media_ssrc] is not None, "
                                   "self.senders[packet.media_ssrc] in recipients)"],
                        modifies=["content(recipients)"])},
         modifies=[], instances=RTCP_KINDS, tags=T)
