"""aiortc.rtp: payload-specific feedback and BYE packets (C05 parsers, C07 PSFB round trip)."""
from pyvc.contracts import contract, lemma, spec, harness, klass

M = "aiortc.rtp"
PSFB_RANGE = ["0 <= {0}.fmt < 32", "0 <= {0}.ssrc < (1 << 32)", "0 <= {0}.media_ssrc < (1 << 32)",
              "len({0}.fci) % 4 == 0", "(8 + len({0}.fci)) // 4 < 65536"]

contract(f"{M}:RtcpPsfbPacket.parse", params={"data": "bytes", "fmt": "int"}, returns="RtcpPsfbPacket",
         raises={"ValueError": "len(data) < 8"},
         ensures=["result.fmt == fmt", "result.ssrc == u32(data, 0)", "result.media_ssrc == u32(data, 4)",
                  "result.fci == data[8:]"],
         fresh_result=True, tags=["C05", "C07"], witness=[{"data": bytes(range(12)), "fmt": 1}])

contract(f"{M}:RtcpPsfbPacket.__bytes__", returns="bytes",
         requires=[r.format("self") for r in PSFB_RANGE],
         ensures=["len(result) == 12 + len(self.fci)", "result[0] == 128 + self.fmt", "result[1] == 206",
                  "u16(result, 2) == (8 + len(self.fci)) // 4", "u32(result, 4) == self.ssrc",
                  "u32(result, 8) == self.media_ssrc", "result[12:] == self.fci"],
         tags=["C07"],
         witness=[{"self": {"$class": "RtcpPsfbPacket", "fmt": 15, "ssrc": 1, "media_ssrc": 2, "fci": b"REMB\x00\x00\x00\x00"}}])

harness("roundtrip_psfb", M, """
def h(x):
    b = bytes(x)
    return RtcpPsfbPacket.parse(b[4:], b[0] & 0x1F)
""", params={"x": "RtcpPsfbPacket"}, returns="RtcpPsfbPacket",
        requires=[r.format("x") for r in PSFB_RANGE],
        ensures=["result.fmt == x.fmt and result.ssrc == x.ssrc and result.media_ssrc == x.media_ssrc",
                 "result.fci == x.fci"],
        tags=["C07"])

contract(f"{M}:RtcpByePacket.parse", params={"data": "bytes", "count": "int"}, returns="RtcpByePacket",
         requires=["0 <= count < 32"],
         raises={"ValueError": "len(data) < 4 * count"},
         ensures=["len(result.sources) == count",
                  "forall(lambda j: result.sources[j] == u32(data, 4 * j), 0, count)"],
         fresh_result=True, tags=["C05", "C07"], witness=[{"data": bytes(range(8)), "count": 2}])

# ---------------------------------------------------------------------------- SDES
klass(f"{M}:RtcpSourceInfo", fields={"ssrc": "int", "items": "list[tuple[int,bytes]]"})
klass(f"{M}:RtcpSdesPacket", fields={"chunks": "list[RtcpSourceInfo]"})
contract(f"{M}:RtcpSdesPacket.parse", params={"data": "bytes", "count": "int"}, returns="RtcpSdesPacket",
         raises={"ValueError": None},
         ensures=["len(result.chunks) == ite(count > 0, count, 0)",
                  "all_in(result.chunks, lambda c: 0 <= c.ssrc < (1 << 32) and "
                  "all_in(c.items, lambda it: 1 <= it[0] < 256 and len(it[1]) < 256))"],
         locals={"chunks": "list[RtcpSourceInfo]", "items": "list[tuple[int,bytes]]"},
         loops={0: dict(kind="for", index="r",
                        invariant=["0 <= pos <= len(data)", "len(chunks) == r", "fresh(chunks)",
                                   "all_in(chunks, lambda c: 0 <= c.ssrc < (1 << 32) and "
                                   "all_in(c.items, lambda it: 1 <= it[0] < 256 and len(it[1]) < 256))"],
                        modifies=["content(chunks)"]),
                1: dict(kind="while",
                        invariant=["4 <= pos <= len(data)", "fresh(items)", "len(chunks) == r", "fresh(chunks)",
                                   "all_in(items, lambda it: 1 <= it[0] < 256 and len(it[1]) < 256)",
                                   "all_in(chunks, lambda c: 0 <= c.ssrc < (1 << 32) and "
                                   "all_in(c.items, lambda it: 1 <= it[0] < 256 and len(it[1]) < 256))"],
                        decreases="len(data) - pos", modifies=["content(items)"])},
         fresh_result=True, tags=["C05", "C07"],
         witness=[{"data": bytes.fromhex("00000001" "0103414243" "000000"), "count": 1}])
