"""aiortc.jitterbuffer: JitterBuffer (C10: whole, ordered frames; bounded; never raises; PLI on discard).

The ring size is a power of two fixed at construction; `% capacity` with a symbolic capacity is non-linear, so
every unit of this file is verified once per concrete capacity CAP (instances below; the class invariant pins
`self._capacity == CAP`).  Everything else (sequence numbers, timestamps, prefetch, arrival order, payloads) is
unbounded/symbolic.

Representation invariant RI (the property's "never holds more than its capacity" and the basis of frame integrity):
slot p holds only a packet whose 16-bit sequence number is congruent to p modulo CAP and lies in the window
[_origin, _origin + CAP) in serial arithmetic.  Hence a slot identifies its sequence number uniquely and
consecutive slots from _origin hold consecutive sequence numbers.
"""
from pyvc.contracts import contract, lemma, spec, harness, klass

M = "aiortc.jitterbuffer"
CAPS = [{"CAP": c} for c in (1, 2, 4, 8, 16, 32, 64, 128, 256)]
T = ["C10"]

klass(f"{M}:JitterFrame", fields={"data": "bytes", "timestamp": "int"})
klass(f"{M}:JitterBuffer",
      fields={"_capacity": "int", "_origin": "opt[int]", "_packets": "list[opt[RtpPacket]]", "_prefetch": "int",
              "_is_video": "bool"},
      invariant=[
          "self._capacity == CAP",
          "len(self._packets) == CAP",
          "implies(self._origin is not None, 0 <= self._origin < 65536)",
          "implies(self._origin is None, forall(lambda p: self._packets[p] is None, 0, CAP))",
          # RI
          "forall(lambda p: implies(self._origin is not None and self._packets[p] is not None, "
          "0 <= self._packets[p].sequence_number < 65536 and self._packets[p].sequence_number % CAP == p and "
          "(self._packets[p].sequence_number - self._origin) % 65536 < CAP), 0, CAP)",
      ])

# slot k positions after the origin, in a given state
spec("jb_slot", ["s", "k"], "s._packets[(s._origin + k) % CAP]")
# offset of ring slot p from sequence number o (quantifiers range over slots p so that E-matching has the
# trigger _packets[p]; a quantifier over offsets k would index with the arithmetic term (o + k) % CAP)
spec("jb_off", ["o", "p"], "(p - o) % CAP")

contract(f"{M}:JitterBuffer.__init__", params={"capacity": "int", "prefetch": "int", "is_video": "bool"},
         requires=["capacity == CAP"],
         ensures=["self._origin is None", "self._prefetch == prefetch", "self._is_video == is_video"],
         modifies=["self._capacity", "self._origin", "self._packets", "self._prefetch", "self._is_video"],
         instances=CAPS, tags=T)

contract(f"{M}:JitterBuffer.remove", params={"count": "int"},
         requires=["self._origin is not None", "0 <= count <= CAP"],
         ensures=["self._origin == (old(self._origin) + count) % 65536",
                  # exactly the `count` slots from the old origin are cleared; every other slot is untouched
                  "forall(lambda p: same(self._packets[p], ite((p - old(self._origin)) % CAP < count, None, "
                  "old(self._packets[p]))), 0, CAP)"],
         loops={0: dict(kind="for", index="i",
                        invariant=["self._origin is not None and self._origin == (old(self._origin) + i) % 65536",
                                   "len(self._packets) == CAP",
                                   "forall(lambda p: same(self._packets[p], ite((p - old(self._origin)) % CAP < i, None, "
                                   "old(self._packets[p]))), 0, CAP)"],
                        modifies=["content(self._packets)"])},
         modifies=["self._origin", "content(self._packets)"],
         instances=CAPS, tags=T)

contract(f"{M}:JitterBuffer.smart_remove", params={"count": "int"}, returns="bool",
         requires=["self._origin is not None"],
         ensures=[
             # n slots were cleared, n = distance the origin moved; at least `count` (or the whole ring)
             "(self._origin - old(self._origin)) % 65536 <= CAP",
             "(self._origin - old(self._origin)) % 65536 >= ite(count <= CAP, count, CAP)",
             "result == ((self._origin - old(self._origin)) % 65536 == CAP)",
             "forall(lambda p: same(self._packets[p], ite((p - old(self._origin)) % CAP < (self._origin - old(self._origin)) % 65536, "
             "None, old(self._packets[p]))), 0, CAP)",
             # it stops early only in front of a held packet (which starts a new timestamp group)
             "implies(not result, self._packets[self._origin % CAP] is not None)",
         ],
         locals={"timestamp": "opt[int]"},
         loops={0: dict(kind="for", index="i",
                        invariant=["i < CAP",   # the last iteration returns True, so the loop is never exhausted
                                   "self._origin is not None and self._origin == (old(self._origin) + i) % 65536",
                                   "len(self._packets) == CAP",
                                   "forall(lambda p: same(self._packets[p], ite((p - old(self._origin)) % CAP < i, None, "
                                   "old(self._packets[p]))), 0, CAP)"],
                        modifies=["content(self._packets)"])},
         modifies=["self._origin", "content(self._packets)"],
         instances=CAPS, tags=T)

contract(f"{M}:JitterBuffer._remove_frame", params={"sequence_number": "int"}, returns="opt[JitterFrame]",
         requires=["self._origin is not None"],
         ensures=[
             "implies(result is None, self._origin == old(self._origin) and "
             "forall(lambda p: same(self._packets[p], old(self._packets[p])), 0, CAP))",
             # a released frame consists of the n >= 1 packets at the front of the buffer
             "implies(result is not None, 1 <= (self._origin - old(self._origin)) % 65536 < CAP and "
             "wit(old(self._origin)))",
             # ... which have consecutive sequence numbers starting at the old origin and one common timestamp
             "implies(result is not None, forall(lambda p: implies(jb_off(old(self._origin), p) < (self._origin - old(self._origin)) % 65536, "
             "old(self._packets[p]) is not None), 0, CAP))",
             "implies(result is not None, forall(lambda p: implies(jb_off(old(self._origin), p) < (self._origin - old(self._origin)) % 65536, "
             "old(self._packets[p].sequence_number) == (old(self._origin) + jb_off(old(self._origin), p)) % 65536), 0, CAP))",
             "implies(result is not None, forall(lambda p: implies(jb_off(old(self._origin), p) < (self._origin - old(self._origin)) % 65536, "
             "old(self._packets[p].timestamp) == result.timestamp), 0, CAP))",
             # ... its data is their payloads concatenated in that order
             "implies(result is not None, result.data == joined(lambda k: old(jb_slot(self, k)._data), "
             "(self._origin - old(self._origin)) % 65536))",
             # ... the frame is whole: the next held packet starts another timestamp
             # (old() evaluates its whole argument in the pre-state, so the slot of the *new* origin is bound outside)
             "implies(result is not None, forall(lambda p: implies(p == self._origin % CAP, old(self._packets[p]) is not None and "
             "old(self._packets[p].timestamp) != result.timestamp), 0, CAP))",
             # ... and exactly those slots are released
             "implies(result is not None, forall(lambda p: same(self._packets[p], "
             "ite(jb_off(old(self._origin), p) < (self._origin - old(self._origin)) % 65536, None, old(self._packets[p]))), 0, CAP))",
         ],
         locals={"timestamp": "opt[int]", "frame": "opt[JitterFrame]", "packets": "list[RtpPacket]"},
         loops={0: dict(kind="for", index="count",
                        invariant=[
                            "self._origin is not None and self._origin == old(self._origin)",
                            "len(self._packets) == CAP",
                            "forall(lambda p: same(self._packets[p], old(self._packets[p])), 0, CAP)",
                            "forall(lambda p: implies(jb_off(self._origin, p) < count, self._packets[p] is not None), 0, CAP)",
                            # consecutive sequence numbers, established slot by slot from the ring invariant
                            "forall(lambda p: implies(jb_off(self._origin, p) < count, "
                            "self._packets[p].sequence_number == (self._origin + jb_off(self._origin, p)) % 65536), 0, CAP)",
                            "(timestamp is None) == (count == 0)",
                            "0 <= len(packets) <= count and fresh(packets)",
                            # `packets` is the current timestamp group: slots count-len(packets) .. count-1
                            "forall(lambda j: same(packets[j], jb_slot(self, count - len(packets) + j)), 0, len(packets))",
                            "forall(lambda p: implies(count - len(packets) <= jb_off(self._origin, p) and jb_off(self._origin, p) < count, "
                            "self._packets[p].timestamp == timestamp), 0, CAP)",
                            "frames >= 0 and remove >= 0",
                            "implies(frame is None, frames == 0 and len(packets) == count and remove == 0)",
                            "implies(frame is not None, 1 <= remove and remove <= count - len(packets) and 1 <= frames "
                            "and frames < self._prefetch)",
                            "implies(frame is not None, forall(lambda p: implies(jb_off(self._origin, p) < remove, "
                            "self._packets[p].timestamp == frame.timestamp), 0, CAP))",
                            "implies(frame is not None, jb_slot(self, remove).timestamp != frame.timestamp)",
                            "implies(frame is not None, frame.data == joined(lambda k: old(jb_slot(self, k)._data), remove))",
                        ])},
         modifies=["self._origin", "content(self._packets)"],
         instances=CAPS, tags=T)

# the packet with sequence number s + k as seen by add(): the new packet, else what its ring slot held at entry
spec("jb_pk", ["pkt", "q", "held"], "ite(pkt.sequence_number == q, pkt, held)")

contract(f"{M}:JitterBuffer.add", params={"packet": "RtpPacket"}, returns="tuple[bool,opt[JitterFrame]]",
         requires=["0 <= packet.sequence_number < 65536"],
         raises={},
         ensures=[
             # the packet is dropped (nothing changes) exactly when it is 1..99 positions behind the origin
             "implies(old(self._origin) is not None and "
             "(old(self._origin) - packet.sequence_number) % 65536 < (packet.sequence_number - old(self._origin)) % 65536 and "
             "(old(self._origin) - packet.sequence_number) % 65536 < 100, "
             "result[1] is None and not result[0] and self._origin == old(self._origin) and "
             "forall(lambda p: same(self._packets[p], old(self._packets[p])), 0, CAP))",
             # (Frame integrity is a postcondition of _remove_frame, the only place a JitterFrame is built; add() returns
             #  that result unchanged.  Restating it here in terms of add()'s own pre-state was tried and is within reach
             #  of the solvers only for some paths and capacities, so it is not part of the contract.)
             # held packets are only ever the new packet or packets held before (nothing is invented or moved)
             "forall(lambda p: self._packets[p] is None or same(self._packets[p], packet) or same(self._packets[p], old(self._packets[p])), 0, CAP)",
             # key-frame request: a video buffer that threw away a held packet without releasing it in this frame says so
             "implies(self._is_video and not result[0], forall(lambda p: implies(old(self._packets[p]) is not None and "
             "not same(self._packets[p], old(self._packets[p])), "
             "old(self._packets[p].sequence_number) == packet.sequence_number or "
             "(result[1] is not None and (self._origin - 1 - old(self._packets[p].sequence_number)) % 65536 < CAP and "
             "old(self._packets[p].timestamp) == result[1].timestamp)), 0, CAP))",
             # a packet inside the window never moves the origin backwards: it advances by the released frame only
             "implies(old(self._origin) is not None and "
             "not ((old(self._origin) - packet.sequence_number) % 65536 < (packet.sequence_number - old(self._origin)) % 65536) and "
             "(packet.sequence_number - old(self._origin)) % 65536 < CAP, (self._origin - old(self._origin)) % 65536 < CAP and "
             "implies(result[1] is None, self._origin == old(self._origin)))",
         ],
         modifies=["self._origin", "content(self._packets)"],
         instances=CAPS, tags=T, merge=False,
         witness=[{"$instance": {"CAP": 4},
                   "self": {"$class": "JitterBuffer", "_capacity": 4, "_origin": 65534, "_prefetch": 0, "_is_video": True,
                            "_packets": [None, None,
                                         {"$class": "RtpPacket", "sequence_number": 65534, "timestamp": 7, "_data": b"ab"},
                                         {"$class": "RtpPacket", "sequence_number": 65535, "timestamp": 7, "_data": b"cd"}]},
                   "packet": {"$class": "RtpPacket", "sequence_number": 0, "timestamp": 8, "_data": b"ef"}}])
