"""aiortc.codecs.vpx: VP8 payload descriptor (C05: ValueError-or-value; C16: picture id / partition-start semantics)."""
from pyvc.contracts import contract, lemma, spec, harness, klass

M = "aiortc.codecs.vpx"
klass(f"{M}:VpxPayloadDescriptor", fields={
    "partition_start": "int", "partition_id": "int", "picture_id": "opt[int]", "tl0picidx": "opt[int]",
    "tid": "opt[tuple[int,int]]", "keyidx": "opt[int]"})

contract(f"{M}:VpxPayloadDescriptor.__init__",
         params={"partition_start": "int", "partition_id": "int", "picture_id": "opt[int]", "tl0picidx": "opt[int]",
                 "tid": "opt[tuple[int,int]]", "keyidx": "opt[int]"},
         ensures=["self.partition_start == partition_start and self.partition_id == partition_id",
                  "self.picture_id == picture_id and self.tl0picidx == tl0picidx and self.keyidx == keyidx",
                  "(self.tid is None) == (tid is None)"],
         modifies=["self.partition_start", "self.partition_id", "self.picture_id", "self.tl0picidx", "self.tid", "self.keyidx"],
         inline=True, tags=["C16"])

contract(f"{M}:VpxPayloadDescriptor.parse", params={"data": "bytes"}, returns="tuple[VpxPayloadDescriptor,bytes]",
         raises={"ValueError": "len(data) < 1 or (data[0] >= 128 and (len(data) < 2 or (data[1] >= 128 and len(data) < 3) or "
                               "len(data) < 2 + ite(data[1] >= 128, ite(data[2] >= 128, 2, 1), 0) + (data[1] // 64) % 2 + "
                               "ite((data[1] // 32) % 2 + (data[1] // 16) % 2 > 0, 1, 0)))"},
         ensures=["len(data) >= 1",
                  "result[0].partition_start == (data[0] // 16) % 2",
                  "result[0].partition_id == data[0] % 16",
                  # the remaining bytes are a suffix of the input: nothing is invented or dropped twice
                  "len(result[1]) <= len(data) - 1",
                  "result[1] == data[len(data) - len(result[1]):]",
                  # picture id: present iff X and I are set; 7-bit or 15-bit form
                  "(result[0].picture_id is not None) == (data[0] >= 128 and data[1] >= 128)",
                  "implies(data[0] >= 128 and data[1] >= 128 and data[2] < 128, result[0].picture_id == data[2])",
                  "implies(data[0] >= 128 and data[1] >= 128 and data[2] >= 128, result[0].picture_id == (data[2] % 128) * 256 + data[3])",
                  "implies(result[0].picture_id is not None, 0 <= result[0].picture_id < 32768)"],
         tags=["C05", "C16"],
         witness=[{"data": bytes.fromhex("9080" "9234" "aabb")}, {"data": bytes.fromhex("10aa")}])

contract(f"{M}:VpxPayloadDescriptor.__bytes__", returns="bytes",
         requires=["0 <= self.partition_start <= 1", "0 <= self.partition_id < 16",
                   "implies(self.picture_id is not None, 0 <= self.picture_id < 32768)",
                   "implies(self.tl0picidx is not None, 0 <= self.tl0picidx < 256)",
                   "implies(self.tid is not None, 0 <= self.tid[0] < 4 and 0 <= self.tid[1] < 2)",
                   "implies(self.keyidx is not None, 0 <= self.keyidx < 32)"],
         ensures=["1 <= len(result) <= 6",
                  "(result[0] // 16) % 2 == self.partition_start", "result[0] % 16 == self.partition_id",
                  "(result[0] >= 128) == (self.picture_id is not None or self.tl0picidx is not None or self.tid is not None or self.keyidx is not None)",
                  "implies(self.picture_id is not None, result[1] >= 128)",
                  "implies(self.picture_id is not None and self.tl0picidx is None and self.tid is None and self.keyidx is None, "
                  "result[1] == 128 and len(result) == ite(self.picture_id < 128, 3, 4))",
                  "implies(self.picture_id is not None and self.picture_id < 128, result[2] == self.picture_id)",
                  "implies(self.picture_id is not None and self.picture_id >= 128, result[2] == 128 + self.picture_id // 256 and result[3] == self.picture_id % 256)"],
         tags=["C16"],
         witness=[{"self": {"$class": "VpxPayloadDescriptor", "partition_start": 1, "partition_id": 0, "picture_id": 4711,
                            "tl0picidx": None, "tid": None, "keyidx": None}}])

harness("roundtrip_vpx_picture_id", M, """
def h(x):
    d, rest = VpxPayloadDescriptor.parse(bytes(x))
    return d
""", params={"x": "VpxPayloadDescriptor"}, returns="VpxPayloadDescriptor",
        requires=["0 <= x.partition_start <= 1", "0 <= x.partition_id < 16",
                  "x.picture_id is not None and 0 <= x.picture_id < 32768",
                  "x.tl0picidx is None and x.tid is None and x.keyidx is None"],
        ensures=["result.partition_start == x.partition_start", "result.partition_id == x.partition_id",
                 "result.picture_id == x.picture_id"],
        tags=["C16"])

contract(f"{M}:Vp8Encoder._packetize", params={"buffer": "bytes", "picture_id": "int"}, returns="list[bytes]",
         requires=["0 <= picture_id < 32768"],
         ensures=[
             # payload size limit (PACKET_MAX = 1300)
             "forall(lambda j: 1 <= len(result[j]) <= 1300, 0, len(result))",
             # only the first packet of the frame is marked as partition start
             "forall(lambda j: (result[j][0] // 16) % 2 == ite(j == 0, 1, 0), 0, len(result))",
             "(len(result) == 0) == (len(buffer) == 0)"],
         locals={"payloads": "list[bytes]"},
         loops={0: dict(kind="while",
                        invariant=["0 <= pos <= length", "length == len(buffer)",
                                   "descr.picture_id == picture_id and descr.partition_id == 0 and descr.tl0picidx is None "
                                   "and descr.tid is None and descr.keyidx is None",
                                   "descr.partition_start == ite(pos == 0, 1, 0)",
                                   "(len(payloads) == 0) == (pos == 0)",
                                   "forall(lambda j: 1 <= len(payloads[j]) <= 1300, 0, len(payloads))",
                                   "forall(lambda j: (payloads[j][0] // 16) % 2 == ite(j == 0, 1, 0), 0, len(payloads))"],
                        decreases="length - pos",
                        modifies=["descr.partition_start", "content(payloads)"])},
         tags=["C16"],
         witness=[{"buffer": bytes(3000), "picture_id": 4711}])
