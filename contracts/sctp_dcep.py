"""aiortc.rtcsctptransport: Data Channel Establishment Protocol, sender side (C13: the OPEN message carries the
channel's label, protocol, ordering and reliability settings exactly, for any Unicode label and protocol; RFC 8832)."""
from pyvc.contracts import contract, lemma, spec, harness, klass

M = "aiortc.rtcsctptransport"
# same class as in sctp_prsctp.py: declarations are merged
klass(f"{M}:RTCSctpTransport",
      fields={"_data_channels": "dict[int,RTCDataChannel]",
              "_data_channel_queue": "deque[tuple[RTCDataChannel,int,bytes]]"})

Q = "self._data_channel_queue"
MSG = f"{Q}[len({Q}) - 1][2]"
contract(f"{M}:RTCSctpTransport._data_channel_open", params={"channel": "RTCDataChannel"},
         requires=["implies(channel.__parameters.maxRetransmits is not None, 0 <= channel.__parameters.maxRetransmits < (1 << 32))",
                   "implies(channel.__parameters.maxPacketLifeTime is not None, 0 <= channel.__parameters.maxPacketLifeTime < (1 << 32))",
                   "len(utf8(channel.__parameters.label)) < 65536 and len(utf8(channel.__parameters.protocol)) < 65536"],
         raises={"ValueError": "channel.__id is not None and channel.__id in self._data_channels"},
         ensures=[
             "implies(channel.__id is not None, channel.__id in self._data_channels and same(self._data_channels[channel.__id], channel))",
             # exactly one message is queued for this channel, with the DCEP payload protocol identifier
             f"len({Q}) == old(len({Q})) + 1 and same({Q}[len({Q}) - 1][0], channel) and {Q}[len({Q}) - 1][1] == 50",
             # DATA_CHANNEL_OPEN layout (RFC 8832 section 5.1)
             f"{MSG}[0] == 3 and u16({MSG}, 2) == 0",
             f"({MSG}[1] >= 128) == (not channel.__parameters.ordered)",
             f"{MSG}[1] % 128 == ite(channel.__parameters.maxRetransmits is not None, 1, "
             f"ite(channel.__parameters.maxPacketLifeTime is not None, 2, 0))",
             f"u32({MSG}, 4) == ite(channel.__parameters.maxRetransmits is not None, channel.__parameters.maxRetransmits, "
             f"ite(channel.__parameters.maxPacketLifeTime is not None, channel.__parameters.maxPacketLifeTime, 0))",
             # label and protocol: lengths in *bytes* of the UTF-8 encodings that follow
             f"u16({MSG}, 8) == len(utf8(channel.__parameters.label)) and u16({MSG}, 10) == len(utf8(channel.__parameters.protocol))",
             f"{MSG}[12:] == utf8(channel.__parameters.label) + utf8(channel.__parameters.protocol)",
         ],
         modifies=["content(self._data_channels)", "content(self._data_channel_queue)"],
         tags=["C13"])

# ---------------------------------------------------------------------------- receiving side
# Assumed (not verified here): flushing hands queued messages to the SCTP layer; it touches the queue, the channel table
# (id allocation) and channel bookkeeping, and raises nothing.  Listed as a trusted contract in the evidence.
contract(f"{M}:RTCSctpTransport._data_channel_flush",
         raises={}, ensures=["all_in(old(self._data_channels), lambda k: k in self._data_channels and "
                             "same(self._data_channels[k], old(self._data_channels[k])))",
                             # an id, once set, is kept (_setId is only reached for channel.id is None)
                             "all_in(old(self._data_channels), lambda k: implies(old(self._data_channels[k].__id) is not None, "
                             "self._data_channels[k].__id == old(self._data_channels[k].__id)))",
                             # the event log of a channel only grows
                             "all_in(old(self._data_channels), lambda k: len(self._data_channels[k].emitted) >= "
                             "old(len(self._data_channels[k].emitted)) and implies(old(len(self._data_channels[k].emitted)) > 0, "
                             "self._data_channels[k].emitted[0] == old(self._data_channels[k].emitted[0])))"],
         modifies=["content(self._data_channel_queue)", "content(self._data_channels)", "*RTCDataChannel._RTCDataChannel__id",
                   "*RTCDataChannel._RTCDataChannel__bufferedAmount", "*list<Seq_Str>"],
         trusted=True, tags=["C13"],
         note="assumed: _data_channel_flush keeps every registered channel registered under its id, keeps ids once set, only appends to event logs")

OPEN_OK = ("pp_id == 50 and len(data) >= 12 and data[0] == 3 and not (stream_id in self._data_channels) and "
           "12 + u16(data, 8) + u16(data, 10) <= len(data) and "
           "valid_utf8(data[12:12 + u16(data, 8)]) and valid_utf8(data[12 + u16(data, 8):12 + u16(data, 8) + u16(data, 10)])")
CH = "self._data_channels[stream_id]"
contract(f"{M}:RTCSctpTransport._data_channel_receive", params={"stream_id": "int", "pp_id": "int", "data": "bytes"},
         # what is decided here is the DATA_CHANNEL_OPEN branch for a well-formed message on a fresh stream
         requires=[OPEN_OK, "0 <= stream_id < 65536"],
         raises={},
         ensures=[
             f"stream_id in self._data_channels and fresh({CH})",
             # same id, label, protocol, ordering and reliability settings as the sender put on the wire
             f"{CH}.__id == stream_id and {CH}.__parameters.id == stream_id and not {CH}.__parameters.negotiated",
             f"utf8({CH}.__parameters.label) == data[12:12 + u16(data, 8)]",
             f"utf8({CH}.__parameters.protocol) == data[12 + u16(data, 8):12 + u16(data, 8) + u16(data, 10)]",
             f"{CH}.__parameters.ordered == (data[1] < 128)",
             f"implies(data[1] % 4 == 1, {CH}.__parameters.maxRetransmits == u32(data, 4) and {CH}.__parameters.maxPacketLifeTime is None)",
             f"implies(data[1] % 4 == 2, {CH}.__parameters.maxPacketLifeTime == u32(data, 4) and {CH}.__parameters.maxRetransmits is None)",
             f"implies(data[1] % 4 != 1 and data[1] % 4 != 2, {CH}.__parameters.maxRetransmits is None and "
             f"{CH}.__parameters.maxPacketLifeTime is None)",
             # the channel is open and the first event emitted on it is 'open'
             f"{CH}.__readyState == 'open' and len({CH}.emitted) >= 1 and {CH}.emitted[0] == 'open'",
         ],
         modifies=["content(self._data_channels)", "content(self._data_channel_queue)", "*RTCDataChannel._RTCDataChannel__id",
                   "*RTCDataChannel._RTCDataChannel__bufferedAmount", "*list<Seq_Str>"],
         witness=[{"stream_id": 1, "pp_id": 50, "data": bytes.fromhex("03 81 0000 00000005 0002 0001") + "\u00e9".encode() + b"p"},
                  {"stream_id": 65535, "pp_id": 50, "data": bytes.fromhex("03 02 0100 ffffffff 0000 0000")},
                  {"stream_id": 0, "pp_id": 50, "data": bytes.fromhex("03 83 0000 00000007 0003 0000") + "\u65e5".encode() + b"xx"}],
         tags=["C13"])
