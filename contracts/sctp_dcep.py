"""aiortc.rtcsctptransport: Data Channel Establishment Protocol, sender side (C13: the OPEN message carries the
channel's label, protocol, ordering and reliability settings exactly, for any Unicode label and protocol; RFC 8832)."""
from pyvc.contracts import contract, lemma, spec, harness, klass

M = "aiortc.rtcsctptransport"
# same class as in sctp_prsctp.py: declarations are merged
klass(f"{M}:RTCSctpTransport",
      fields={"_data_channels": "dict[int,RTCDataChannel]",
              "_data_channel_queue": "deque[tuple[RTCDataChannel,int,bytes]]"})

Q = "self._data_channel_queue"
MSG = f"{Q}[len({Q}) - 1][2]"
contract(f"{M}:RTCSctpTransport._data_channel_open", params={"channel": "RTCDataChannel"},
         requires=["implies(channel.__parameters.maxRetransmits is not None, 0 <= channel.__parameters.maxRetransmits < (1 << 32))",
                   "implies(channel.__parameters.maxPacketLifeTime is not None, 0 <= channel.__parameters.maxPacketLifeTime < (1 << 32))",
                   "len(utf8(channel.__parameters.label)) < 65536 and len(utf8(channel.__parameters.protocol)) < 65536"],
         raises={"ValueError": "channel.__id is not None and channel.__id in self._data_channels"},
         ensures=[
             "implies(channel.__id is not None, channel.__id in self._data_channels and same(self._data_channels[channel.__id], channel))",
             # exactly one message is queued for this channel, with the DCEP payload protocol identifier
             f"len({Q}) == old(len({Q})) + 1 and same({Q}[len({Q}) - 1][0], channel) and {Q}[len({Q}) - 1][1] == 50",
             # DATA_CHANNEL_OPEN layout (RFC 8832 section 5.1)
             f"{MSG}[0] == 3 and u16({MSG}, 2) == 0",
             f"({MSG}[1] >= 128) == (not channel.__parameters.ordered)",
             f"{MSG}[1] % 128 == ite(channel.__parameters.maxRetransmits is not None, 1, "
             f"ite(channel.__parameters.maxPacketLifeTime is not None, 2, 0))",
             f"u32({MSG}, 4) == ite(channel.__parameters.maxRetransmits is not None, channel.__parameters.maxRetransmits, "
             f"ite(channel.__parameters.maxPacketLifeTime is not None, channel.__parameters.maxPacketLifeTime, 0))",
             # label and protocol: lengths in *bytes* of the UTF-8 encodings that follow
             f"u16({MSG}, 8) == len(utf8(channel.__parameters.label)) and u16({MSG}, 10) == len(utf8(channel.__parameters.protocol))",
             f"{MSG}[12:] == utf8(channel.__parameters.label) + utf8(channel.__parameters.protocol)",
         ],
         modifies=["content(self._data_channels)", "content(self._data_channel_queue)"],
         tags=["C13"])

# ---------------------------------------------------------------------------- flushing queued messages
klass(f"{M}:RTCSctpTransport", fields={"_data_channel_id": "opt[int]", "_outbound_queue": "deque[DataChunk]"})

contract("aiortc.rtcdatachannel:RTCDataChannel._setId", params={"id": "int"}, raises={},
         ensures=["self.__id == id"], modifies=["self.__id"], tags=["C13"])

# Assumed: _send fragments the message into the outbound queue and transmits; it touches no data-channel state.
contract(f"{M}:RTCSctpTransport._send",
         params={"stream_id": "int", "pp_id": "int", "user_data": "bytes", "expiry": "opt[float]",
                 "max_retransmits": "opt[int]", "ordered": "bool"},
         raises={}, ensures=[], modifies=["content(self._outbound_queue)"],
         trusted=True, tags=["C13", "C06"],
         note="assumed: _send (fragmentation, TSN assignment, _transmit) changes no data-channel state and raises nothing")

EST_ = "self._association_state == RTCSctpTransport.State.ESTABLISHED"
TABLE_NN = "all_in(self._data_channels, lambda k: 0 <= k)"
TABLE_ID = "all_in(self._data_channels, lambda k: self._data_channels[k].__id is not None and self._data_channels[k].__id == k)"
QUEUE_OK = ("all_in(self._data_channel_queue, lambda it: implies(it[0].__id is not None, it[0].__id in self._data_channels and "
            "same(self._data_channels[it[0].__id], it[0])))")
KEPT = ("all_in(old(self._data_channels), lambda k: k in self._data_channels and "
        "same(self._data_channels[k], old(self._data_channels[k])))")
GROWS = ("all_in(old(self._data_channels), lambda k: len(self._data_channels[k].emitted) >= "
         "old(len(self._data_channels[k].emitted)) and implies(old(len(self._data_channels[k].emitted)) > 0, "
         "self._data_channels[k].emitted[0] == old(self._data_channels[k].emitted[0])))")
contract(f"{M}:RTCSctpTransport._data_channel_flush",
         requires=[TABLE_NN, TABLE_ID, QUEUE_OK,
                   f"implies({EST_}, self._data_channel_id is not None and 0 <= self._data_channel_id <= 1)"],
         raises={},
         ensures=[KEPT,
                  # an id, once set, is kept (only channels without an id are numbered), the table stays id -> channel
                  TABLE_NN, TABLE_ID,
                  # the event log of a channel only grows
                  GROWS,
                  # ids handed out here have the parity of this end's role
                  f"implies({EST_}, all_in(self._data_channels, lambda k: k in old(self._data_channels) or "
                  "k % 2 == self._data_channel_id % 2))"],
         # what is handed to the SCTP layer, stated where the channel is known: the channel's own stream; DCEP messages
         # reliable and ordered; user messages with the channel's settings, a lifetime only if the channel has one
         at_call={"_send": [
             "channel.__id is not None and stream_id == channel.__id and pp_id == protocol",
             "implies(protocol == 50, expiry is None and max_retransmits is None and ordered)",
             "implies(protocol != 50, (expiry is None) == (channel.__parameters.maxPacketLifeTime is None or "
             "channel.__parameters.maxPacketLifeTime == 0))",
             "implies(protocol != 50, max_retransmits == channel.__parameters.maxRetransmits and "
             "ordered == channel.__parameters.ordered)"]},
         locals={"channel": "RTCDataChannel", "protocol": "int", "user_data": "bytes", "stream_id": "opt[int]",
                 "expiry": "opt[float]"},
         loops={0: dict(kind="while", decreases="unproved", invariant=[
                    TABLE_NN, TABLE_ID, QUEUE_OK, KEPT, GROWS, EST_,
                    "self._data_channel_id is not None and 0 <= self._data_channel_id <= 1",
                    "all_in(self._data_channels, lambda k: k in old(self._data_channels) or "
                    "k % 2 == self._data_channel_id % 2)"]),
                1: dict(kind="while", decreases="unproved", invariant=[
                    "stream_id is not None and 0 <= stream_id and stream_id % 2 == self._data_channel_id % 2"])},
         modifies=["content(self._data_channel_queue)", "content(self._data_channels)", "content(self._outbound_queue)",
                   "*RTCDataChannel._RTCDataChannel__id", "*RTCDataChannel._RTCDataChannel__bufferedAmount", "*list<Seq_Str>"],
         tags=["C13", "C06"])

# ---------------------------------------------------------------------------- receiving side
OPEN_OK = ("pp_id == 50 and len(data) >= 12 and data[0] == 3 and not (stream_id in self._data_channels) and "
           "12 + u16(data, 8) + u16(data, 10) <= len(data) and "
           "valid_utf8(data[12:12 + u16(data, 8)]) and valid_utf8(data[12 + u16(data, 8):12 + u16(data, 8) + u16(data, 10)])")
CH = "self._data_channels[stream_id]"
contract(f"{M}:RTCSctpTransport._data_channel_receive", params={"stream_id": "int", "pp_id": "int", "data": "bytes"},
         # decided per DCEP message type: MSG=3 a well-formed DATA_CHANNEL_OPEN on a fresh stream, MSG=2 a DATA_CHANNEL_ACK
         # for a registered channel
         # MSG=51/53/56/57: a user message (payload protocol identifier) for a registered channel
         instances=[{"MSG": 3}, {"MSG": 2}, {"MSG": 51}, {"MSG": 53}, {"MSG": 56}, {"MSG": 57}],
         requires=["@MSG=3: " + OPEN_OK, "0 <= stream_id < 65536", TABLE_NN, TABLE_ID, QUEUE_OK,
                   f"implies({EST_}, self._data_channel_id is not None and 0 <= self._data_channel_id <= 1)",
                   "@MSG=2: pp_id == 50 and len(data) >= 1 and data[0] == 2 and stream_id in self._data_channels",
                   "@MSG=51: pp_id == 51 and stream_id in self._data_channels and valid_utf8(data)",
                   "@MSG=53: pp_id == 53 and stream_id in self._data_channels",
                   "@MSG=56: pp_id == 56 and stream_id in self._data_channels",
                   "@MSG=57: pp_id == 57 and stream_id in self._data_channels"],
         raises={},
         ensures=[
             f"@MSG=3: stream_id in self._data_channels and fresh({CH})",
             # same id, label, protocol, ordering and reliability settings as the sender put on the wire
             f"@MSG=3: {CH}.__id == stream_id and {CH}.__parameters.id == stream_id and not {CH}.__parameters.negotiated",
             f"@MSG=3: utf8({CH}.__parameters.label) == data[12:12 + u16(data, 8)]",
             f"@MSG=3: utf8({CH}.__parameters.protocol) == data[12 + u16(data, 8):12 + u16(data, 8) + u16(data, 10)]",
             f"@MSG=3: {CH}.__parameters.ordered == (data[1] < 128)",
             f"@MSG=3: implies(data[1] % 4 == 1, {CH}.__parameters.maxRetransmits == u32(data, 4) and {CH}.__parameters.maxPacketLifeTime is None)",
             f"@MSG=3: implies(data[1] % 4 == 2, {CH}.__parameters.maxPacketLifeTime == u32(data, 4) and {CH}.__parameters.maxRetransmits is None)",
             f"@MSG=3: implies(data[1] % 4 != 1 and data[1] % 4 != 2, {CH}.__parameters.maxRetransmits is None and "
             f"{CH}.__parameters.maxPacketLifeTime is None)",
             # the channel is open and the first event emitted on it is 'open'
             f"@MSG=3: {CH}.__readyState == 'open' and len({CH}.emitted) >= 1 and {CH}.emitted[0] == 'open'",
             # DATA_CHANNEL_ACK: a channel that is still connecting opens; any other state is left alone - readyState never
             # moves backwards (an ACK that arrives after close() must not reopen the channel) - and no channel is added
             f"@MSG=2: implies(old({CH}.__readyState) == 'connecting', {CH}.__readyState == 'open')",
             f"@MSG=2: implies(old({CH}.__readyState) != 'connecting', {CH}.__readyState == old({CH}.__readyState) and "
             f"len({CH}.emitted) == old(len({CH}.emitted)))",
             "@MSG=2: all_in(self._data_channels, lambda k: k in old(self._data_channels) and "
             "same(self._data_channels[k], old(self._data_channels[k])))",
             # user messages: exactly one 'message' event on the channel the message was sent on, carrying the value and the
             # type the sender's payload protocol identifier says: text (the UTF-8 decoding of the payload; the empty
             # string for 56) or binary (the payload; empty bytes for 57)
             f"@MSG=51: len({CH}.emitted) == old(len({CH}.emitted)) + 1 and {CH}.emitted[len({CH}.emitted) - 1] == 'message' and "
             f"len({CH}.message_data) == old(len({CH}.message_data)) + 1 and "
             f"{CH}.message_data[len({CH}.message_data) - 1] == data and "
             f"{CH}.message_is_text[len({CH}.message_is_text) - 1] == True and {CH}.__readyState == old({CH}.__readyState)",
             f"@MSG=53: len({CH}.emitted) == old(len({CH}.emitted)) + 1 and {CH}.emitted[len({CH}.emitted) - 1] == 'message' and "
             f"len({CH}.message_data) == old(len({CH}.message_data)) + 1 and "
             f"{CH}.message_data[len({CH}.message_data) - 1] == data and "
             f"{CH}.message_is_text[len({CH}.message_is_text) - 1] == False and {CH}.__readyState == old({CH}.__readyState)",
             f"@MSG=56: len({CH}.emitted) == old(len({CH}.emitted)) + 1 and {CH}.emitted[len({CH}.emitted) - 1] == 'message' and "
             f"len({CH}.message_data) == old(len({CH}.message_data)) + 1 and "
             f"{CH}.message_data[len({CH}.message_data) - 1] == b'' and "
             f"{CH}.message_is_text[len({CH}.message_is_text) - 1] == True and {CH}.__readyState == old({CH}.__readyState)",
             f"@MSG=57: len({CH}.emitted) == old(len({CH}.emitted)) + 1 and {CH}.emitted[len({CH}.emitted) - 1] == 'message' and "
             f"len({CH}.message_data) == old(len({CH}.message_data)) + 1 and "
             f"{CH}.message_data[len({CH}.message_data) - 1] == b'' and "
             f"{CH}.message_is_text[len({CH}.message_is_text) - 1] == False and {CH}.__readyState == old({CH}.__readyState)",
         ],
         modifies=["content(self._data_channels)", "content(self._data_channel_queue)", "content(self._outbound_queue)",
                   "*RTCDataChannel._RTCDataChannel__id", "*RTCDataChannel._RTCDataChannel__bufferedAmount",
                   "*RTCDataChannel._RTCDataChannel__readyState", "*list<Seq_Str>",
                   "content(self._data_channels[stream_id].message_data)", "content(self._data_channels[stream_id].message_is_text)"],
         witness=[{"$instance": {"MSG": 3}, "stream_id": 1, "pp_id": 50, "data": bytes.fromhex("03 81 0000 00000005 0002 0001") + "\u00e9".encode() + b"p"},
                  {"$instance": {"MSG": 3}, "stream_id": 65535, "pp_id": 50, "data": bytes.fromhex("03 02 0100 ffffffff 0000 0000")},
                  {"$instance": {"MSG": 3}, "stream_id": 0, "pp_id": 50, "data": bytes.fromhex("03 83 0000 00000007 0003 0000") + "\u65e5".encode() + b"xx"}],
         tags=["C13", "C01"])

# ---------------------------------------------------------------------------- send(): what is queued for a user message
QL = f"{Q}[len({Q}) - 1]"
contract(f"{M}:RTCSctpTransport._data_channel_send", params={"channel": "RTCDataChannel", "data": "$T"},
         instances=[{"T": "str"}, {"T": "bytes"}],
         raises={},
         ensures=[
             # exactly one message is queued for this channel
             f"len({Q}) == old(len({Q})) + 1 and same({QL}[0], channel)",
             "forall(lambda i: same(self._data_channel_queue[i][0], old(self._data_channel_queue[i][0])) and "
             "self._data_channel_queue[i][1] == old(self._data_channel_queue[i][1]) and "
             "self._data_channel_queue[i][2] == old(self._data_channel_queue[i][2]), 0, old(len(self._data_channel_queue)))",
             # value and type travel as payload protocol identifier + bytes (RFC 8831 section 8): text as UTF-8 under 51,
             # binary as is under 53, the empty string / empty bytes as one zero byte under 56 / 57
             f"@T=str: implies(len(data) > 0, {QL}[1] == 51 and {QL}[2] == utf8(data))",
             f"@T=str: implies(len(data) == 0, {QL}[1] == 56 and len({QL}[2]) == 1 and {QL}[2][0] == 0)",
             f"@T=bytes: implies(len(data) > 0, {QL}[1] == 53 and {QL}[2] == data)",
             f"@T=bytes: implies(len(data) == 0, {QL}[1] == 57 and len({QL}[2]) == 1 and {QL}[2][0] == 0)",
             # bufferedAmount grows by exactly the number of bytes queued (flush takes the same number off again)
             f"channel.__bufferedAmount == old(channel.__bufferedAmount) + len({QL}[2])",
         ],
         modifies=["content(self._data_channel_queue)", "channel.__bufferedAmount", "content(channel.emitted)"],
         tags=["C13", "C01"])

# ---------------------------------------------------------------------------- out-of-band negotiated channels pair up by id
contract(f"{M}:RTCSctpTransport._data_channel_add_negotiated", params={"channel": "RTCDataChannel"},
         requires=["channel.__id is not None and 0 <= channel.__id", "channel.__readyState == 'connecting'"],
         raises={"ValueError": "channel.__id in self._data_channels"},
         ensures=["channel.__id in self._data_channels and same(self._data_channels[channel.__id], channel)",
                  "all_in(old(self._data_channels), lambda k: k in self._data_channels and "
                  "same(self._data_channels[k], old(self._data_channels[k])))",
                  "all_in(self._data_channels, lambda k: k == channel.__id or k in old(self._data_channels))",
                  # open at once on an established association, otherwise when it is established (_set_state)
                  f"implies({EST_}, channel.__readyState == 'open' and channel.emitted[len(channel.emitted) - 1] == 'open')",
                  f"implies(not ({EST_}), channel.__readyState == 'connecting' and len(channel.emitted) == old(len(channel.emitted)))"],
         modifies=["content(self._data_channels)", "channel.__readyState", "content(channel.emitted)"],
         tags=["C13"])
