"""aiortc.rtcsctptransport: closing data channels by SCTP stream reset (C13: close() at any moment finishes - a queued
stream id is always either covered by an outstanding request or about to be put into one; RFC 6525 section 5.1)."""
from pyvc.contracts import contract, lemma, spec, harness, klass

M = "aiortc.rtcsctptransport"
# same class as in sctp_prsctp.py / sctp_dcep.py: declarations are merged
klass(f"{M}:RTCSctpTransport",
      fields={"_reconfig_queue": "list[int]", "_reconfig_request": "opt[StreamResetOutgoingParam]",
              "_reconfig_request_seq": "int", "_reconfig_response_seq": "int", "_local_tsn": "int",
              "_association_state": "RTCSctpTransport.State", "_outbound_stream_seq": "dict[int,int]",
              "_inbound_streams": "dict[int,InboundStream]"})

EST = "self._association_state == RTCSctpTransport.State.ESTABLISHED"

NEWREQ = f"{EST} and old(len(self._reconfig_queue)) > 0 and old(self._reconfig_request) is None"

# Assumed: putting a RE-CONFIG chunk on the wire touches none of the reset bookkeeping and raises nothing.
contract(f"{M}:RTCSctpTransport._send_reconfig_param", params={"param": "any"},
         raises={}, ensures=[], modifies=[], trusted=True, tags=["C13"],
         note="assumed: _send_reconfig_param (chunk serialisation and _send_chunk) changes no reset bookkeeping")

contract(f"{M}:RTCSctpTransport._transmit_reconfig",
         requires=["0 <= self._reconfig_request_seq < (1 << 32)", "0 <= self._local_tsn < (1 << 32)"],
         raises={},
         ensures=[
             # progress: with streams waiting on an established association a request is outstanding afterwards
             f"implies({EST} and old(len(self._reconfig_queue)) > 0, self._reconfig_request is not None)",
             # a new request is made exactly when none was outstanding; it takes the first 135 queued streams, in order
             f"implies({NEWREQ}, fresh(self._reconfig_request))",
             f"implies({NEWREQ}, self._reconfig_request.streams == old(self._reconfig_queue[0:135]))",
             f"implies({NEWREQ}, self._reconfig_queue == old(self._reconfig_queue[135:]))",
             f"implies({NEWREQ}, self._reconfig_request.request_sequence == old(self._reconfig_request_seq) and "
             "self._reconfig_request_seq == (old(self._reconfig_request_seq) + 1) % (1 << 32))",
             f"implies(not ({NEWREQ}), "
             "same(self._reconfig_request, old(self._reconfig_request)) and self._reconfig_queue == old(self._reconfig_queue) and "
             "self._reconfig_request_seq == old(self._reconfig_request_seq))",
         ],
         modifies=["self._reconfig_queue", "self._reconfig_request", "self._reconfig_request_seq"],
         tags=["C13"])

contract(f"{M}:RTCSctpTransport._data_channel_closed", params={"stream_id": "int"},
         raises={"KeyError": "not (stream_id in self._data_channels)"},
         ensures=["not (stream_id in self._data_channels)",
                  "all_in(old(self._data_channels), lambda k: implies(k != stream_id, k in self._data_channels and "
                  "same(self._data_channels[k], old(self._data_channels[k]))))",
                  "all_in(self._data_channels, lambda k: k in old(self._data_channels))",
                  "now(old(self._data_channels[stream_id])).__readyState == 'closed'"],
         modifies=["content(self._data_channels)", "self._data_channels[stream_id].__readyState",
                   "content(self._data_channels[stream_id].emitted)"],
         tags=["C13"])

MATCH = "(old(self._reconfig_request) is not None and param.response_sequence == old(self._reconfig_request.request_sequence))"
contract(f"{M}:RTCSctpTransport._receive_reconfig_param", params={"param": "$PKT"},
         instances=[{"PKT": "StreamResetResponseParam"}, {"PKT": "StreamResetOutgoingParam"}],
         requires=["0 <= self._reconfig_request_seq < (1 << 32)", "0 <= self._local_tsn < (1 << 32)",
                   # streams of the outstanding request are registered channels (they were when queued by
                   # _data_channel_close, and only this function unregisters them); a stream listed twice still raises
                   "@PKT=StreamResetResponseParam: implies(self._reconfig_request is not None, "
                   "forall(lambda i: self._reconfig_request.streams[i] in "
                   "self._data_channels, 0, len(self._reconfig_request.streams)))",
                   # the channel table maps a stream id to the channel that carries that id
                   "@PKT=StreamResetOutgoingParam: all_in(self._data_channels, lambda k: 0 <= k < 65536 and "
                   "self._data_channels[k].__id is not None and self._data_channels[k].__id == k)",
                   # the parameter was parsed from the wire: its stream list is not the transport's own reset queue
                   "@PKT=StreamResetOutgoingParam: not same(param.streams, self._reconfig_queue)"],
         # a stream of the answered request that is no longer registered makes _data_channel_closed raise (not decided here)
         raises={"KeyError": "?isinstance(param, StreamResetResponseParam) and self._reconfig_request is not None and "
                             "param.response_sequence == self._reconfig_request.request_sequence"},
         ensures=[
             # the answered request is no longer the outstanding one
             f"@PKT=StreamResetResponseParam: implies({MATCH}, not same(self._reconfig_request, old(self._reconfig_request)))",
             # progress: streams still queued after the response are covered by a new outstanding request, so a close()
             # issued while an earlier reset was in flight is not stranded
             f"@PKT=StreamResetResponseParam: implies({MATCH} and {EST} and old(len(self._reconfig_queue)) > 0, self._reconfig_request is not None and "
             "self._reconfig_request.streams == old(self._reconfig_queue[0:135]))",
             # the streams of the answered request are closed and unregistered
             f"@PKT=StreamResetResponseParam: implies({MATCH}, forall(lambda i: not (old(self._reconfig_request.streams[i]) in self._data_channels), 0, "
             "old(len(self._reconfig_request.streams))))",
             # a response that matches nothing changes nothing
             f"@PKT=StreamResetResponseParam: implies(not {MATCH}, same(self._reconfig_request, old(self._reconfig_request)) and "
             "self._reconfig_queue == old(self._reconfig_queue))",
             # incoming reset (the peer closes its outgoing streams): the reassembly state of every listed stream is dropped,
             # so its next message is expected with sequence number 0 again; the request is answered
             "@PKT=StreamResetOutgoingParam: forall(lambda i: not (param.streams[i] in self._inbound_streams), 0, len(param.streams))",
             "@PKT=StreamResetOutgoingParam: all_in(self._inbound_streams, lambda k: k in old(self._inbound_streams) and "
             "same(self._inbound_streams[k], old(self._inbound_streams[k])))",
             "@PKT=StreamResetOutgoingParam: self._reconfig_response_seq == param.request_sequence",
             # ... and the data channel on each listed stream is on its way out
             "@PKT=StreamResetOutgoingParam: forall(lambda i: implies(param.streams[i] in self._data_channels, "
             "self._data_channels[param.streams[i]].__readyState == 'closing' or "
             "self._data_channels[param.streams[i]].__readyState == 'closed'), 0, len(param.streams))",
         ],
         loops={0: {"kind": "for", "index": "j0", "invariant": [
             "forall(lambda i: not (param.streams[i] in self._inbound_streams), 0, j0)",
             "all_in(self._inbound_streams, lambda k: k in old(self._inbound_streams) and "
             "same(self._inbound_streams[k], old(self._inbound_streams[k])))",
             "all_in(self._data_channels, lambda k: 0 <= k < 65536 and self._data_channels[k].__id is not None and "
             "self._data_channels[k].__id == k)",
             "forall(lambda i: implies(param.streams[i] in self._data_channels, "
             "self._data_channels[param.streams[i]].__readyState == 'closing' or "
             "self._data_channels[param.streams[i]].__readyState == 'closed'), 0, j0)",
             "self._reconfig_response_seq == old(self._reconfig_response_seq)",
             "same(self._reconfig_queue, old(self._reconfig_queue)) and not same(param.streams, self._reconfig_queue)"]},
                1: {"kind": "for", "index": "i0", "invariant": [
             "same(self._reconfig_request, old(self._reconfig_request)) and self._reconfig_request is not None",
             "self._reconfig_request.streams == old(self._reconfig_request.streams)",
             "self._reconfig_queue == old(self._reconfig_queue) and self._reconfig_request_seq == old(self._reconfig_request_seq)",
             "forall(lambda i: not (old(self._reconfig_request.streams[i]) in self._data_channels), 0, i0)",
         ]}},
         modifies=["self._reconfig_queue", "content(self._reconfig_queue)", "self._reconfig_request", "self._reconfig_request_seq",
                   "self._reconfig_response_seq", "content(self._inbound_streams)", "self._data_channel_queue",
                   "content(self._outbound_stream_seq)", "content(self._data_channels)",
                   "*RTCDataChannel._RTCDataChannel__readyState", "*list<Seq_Str>"],
         opaque_calls=["__log_debug"],
         # C01: a stream id that is re-used after a reset starts from sequence number 0 on both sides
         tags=["C13", "C01"])

# ---------------------------------------------------------------------------- close() on this side
DONE = "(old(channel.__readyState) == 'closing' or old(channel.__readyState) == 'closed')"
RESET = f"(not {DONE} and {EST} and channel.__id is not None)"
LOCAL = f"(not {DONE} and not ({EST} and channel.__id is not None))"
DQ = "self._data_channel_queue"
contract(f"{M}:RTCSctpTransport._data_channel_close", params={"channel": "RTCDataChannel"},
         requires=["implies(channel.__id is not None, 0 <= channel.__id < 65536)",
                   # a channel that has an id and is not closing/closed is registered under it (_data_channel_open,
                   # _data_channel_add_negotiated, _data_channel_flush, _data_channel_receive register; only closing unregisters)
                   "implies(channel.__id is not None and channel.__readyState != 'closing' and channel.__readyState != 'closed', "
                   "channel.__id in self._data_channels)"],
         raises={},
         ensures=[
             # closing twice is a no-op
             f"implies({DONE}, channel.__readyState == old(channel.__readyState) and self._reconfig_queue == old(self._reconfig_queue) "
             f"and len(channel.emitted) == old(len(channel.emitted)))",
             # established association, stream already has its id: a stream reset is queued for exactly that id
             f"implies({RESET}, channel.__readyState == 'closing' and len(self._reconfig_queue) == old(len(self._reconfig_queue)) + 1)",
             f"implies({RESET}, self._reconfig_queue[len(self._reconfig_queue) - 1] == channel.__id)",
             f"implies({RESET}, forall(lambda i: self._reconfig_queue[i] == old(self._reconfig_queue[i]), 0, old(len(self._reconfig_queue))))",
             # nothing of the channel is on the wire yet (no association, or its id not yet assigned - close() right after
             # create): it is closed locally at once, unregistered, and none of its queued messages stays behind
             f"implies({LOCAL}, channel.__readyState == 'closed' and self._reconfig_queue == old(self._reconfig_queue))",
             f"implies({LOCAL} and channel.__id is not None, not (channel.__id in self._data_channels))",
             f"implies({LOCAL}, forall(lambda i: not same({DQ}[i][0], channel), 0, len({DQ})))",
             # no other channel is touched
             "all_in(self._data_channels, lambda k: k in old(self._data_channels) and "
             "same(self._data_channels[k], old(self._data_channels[k])))",
             "all_in(old(self._data_channels), lambda k: implies(channel.__id is None or k != channel.__id, k in self._data_channels))",
         ],
         locals={"new_queue": "deque[tuple[RTCDataChannel,int,bytes]]"},
         loops={0: dict(kind="for", index="i0", invariant=[
             "forall(lambda i: not same(new_queue[i][0], channel), 0, len(new_queue))",
             "channel.__readyState == 'closing' and self._reconfig_queue == old(self._reconfig_queue)"])},
         modifies=["content(self._reconfig_queue)", "self._data_channel_queue", "content(self._data_channels)",
                   "channel.__readyState", "content(channel.emitted)"],
         tags=["C13"])

# ---------------------------------------------------------------------------- association state changes
klass(f"{M}:RTCSctpTransport", fields={"__state": "str"})

DC = "self._data_channels"
contract(f"{M}:RTCSctpTransport._set_state", params={"state": "RTCSctpTransport.State"},
         requires=[
             # the table holds live channels only: a closed channel has been unregistered (only _data_channel_closed and
             # the local branch of _data_channel_close close a channel, and both unregister it)
             f"all_in({DC}, lambda k: {DC}[k].__readyState != 'closed')",
             # a negotiated channel cannot be closing before the association is established (close() is local then)
             f"implies(state == RTCSctpTransport.State.ESTABLISHED, all_in({DC}, lambda k: implies({DC}[k].__parameters.negotiated, "
             f"{DC}[k].__readyState != 'closing')))"],
         raises={},
         ensures=[
             "self._association_state == state",
             # established: every negotiated channel is open, the others are as they were; nothing is unregistered
             f"implies(state == RTCSctpTransport.State.ESTABLISHED, all_in({DC}, lambda k: "
             f"implies({DC}[k].__parameters.negotiated, {DC}[k].__readyState == 'open') and "
             f"implies(not {DC}[k].__parameters.negotiated, {DC}[k].__readyState == old({DC}[k].__readyState))))",
             f"implies(state != RTCSctpTransport.State.CLOSED, all_in(old({DC}), lambda k: k in {DC} and same({DC}[k], old({DC}[k]))))",
             # closed: when the association ends every channel closes and is unregistered
             f"implies(state == RTCSctpTransport.State.CLOSED, all_in(old({DC}), lambda k: not (k in {DC}) and "
             f"now(old({DC}[k])).__readyState == 'closed'))",
             f"implies(state == RTCSctpTransport.State.CLOSED, all_in({DC}, lambda k: False))",
             # any other state leaves the channels alone
             f"implies(state != RTCSctpTransport.State.CLOSED and state != RTCSctpTransport.State.ESTABLISHED, "
             f"all_in({DC}, lambda k: {DC}[k].__readyState == old({DC}[k].__readyState)))",
         ],
         loops={0: dict(kind="for", index="i0", invariant=[
                    "self._association_state == state",
                    f"all_in(old({DC}), lambda k: k in {DC} and same({DC}[k], old({DC}[k])))",
                    f"all_in({DC}, lambda k: k in old({DC}))",
                    f"all_in({DC}, lambda k: implies(not {DC}[k].__parameters.negotiated, "
                    f"{DC}[k].__readyState == old({DC}[k].__readyState)))",
                    f"forall(lambda j: implies(loop_seq(0)[j].__parameters.negotiated, loop_seq(0)[j].__readyState == 'open'), 0, i0)",
                    f"all_in({DC}, lambda k: implies({DC}[k].__parameters.negotiated, {DC}[k].__readyState == 'open' or "
                    f"{DC}[k].__readyState == old({DC}[k].__readyState)))"]),
                1: dict(kind="for", index="i1", invariant=[
                    "self._association_state == state",
                    f"all_in({DC}, lambda k: k in old({DC}) and same({DC}[k], old({DC}[k])))",
                    f"forall(lambda j: not (loop_seq(1)[j] in {DC}) and now(old({DC}[loop_seq(1)[j]])).__readyState == 'closed', 0, i1)",
                    f"forall(lambda j: loop_seq(1)[j] in {DC}, i1, len(loop_seq(1)))",
                    f"all_in(old({DC}), lambda k: k in {DC} or now(old({DC}[k])).__readyState == 'closed')"])},
         modifies=["self._association_state", "self.__state", "content(self._data_channels)",
                   "*RTCDataChannel._RTCDataChannel__readyState", "*list<Seq_Str>"],
         opaque_calls=["__log_debug", "_t1_cancel", "_t2_cancel", "_t3_cancel"],
         tags=["C13"])
