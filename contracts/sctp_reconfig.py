"""aiortc.rtcsctptransport: closing data channels by SCTP stream reset (C13: close() at any moment finishes - a queued
stream id is always either covered by an outstanding request or about to be put into one; RFC 6525 section 5.1)."""
from pyvc.contracts import contract, lemma, spec, harness, klass

M = "aiortc.rtcsctptransport"
# same class as in sctp_prsctp.py / sctp_dcep.py: declarations are merged
klass(f"{M}:RTCSctpTransport",
      fields={"_reconfig_queue": "list[int]", "_reconfig_request": "opt[StreamResetOutgoingParam]",
              "_reconfig_request_seq": "int", "_reconfig_response_seq": "int", "_local_tsn": "int",
              "_association_state": "RTCSctpTransport.State", "_outbound_stream_seq": "dict[int,int]"})

EST = "self._association_state == RTCSctpTransport.State.ESTABLISHED"

NEWREQ = f"{EST} and old(len(self._reconfig_queue)) > 0 and old(self._reconfig_request) is None"

# Assumed: putting a RE-CONFIG chunk on the wire touches none of the reset bookkeeping and raises nothing.
contract(f"{M}:RTCSctpTransport._send_reconfig_param", params={"param": "any"},
         raises={}, ensures=[], modifies=[], trusted=True, tags=["C13"],
         note="assumed: _send_reconfig_param (chunk serialisation and _send_chunk) changes no reset bookkeeping")

contract(f"{M}:RTCSctpTransport._transmit_reconfig",
         requires=["0 <= self._reconfig_request_seq < (1 << 32)", "0 <= self._local_tsn < (1 << 32)"],
         raises={},
         ensures=[
             # progress: with streams waiting on an established association a request is outstanding afterwards
             f"implies({EST} and old(len(self._reconfig_queue)) > 0, self._reconfig_request is not None)",
             # a new request is made exactly when none was outstanding; it takes the first 135 queued streams, in order
             f"implies({NEWREQ}, fresh(self._reconfig_request))",
             f"implies({NEWREQ}, self._reconfig_request.streams == old(self._reconfig_queue[0:135]))",
             f"implies({NEWREQ}, self._reconfig_queue == old(self._reconfig_queue[135:]))",
             f"implies({NEWREQ}, self._reconfig_request.request_sequence == old(self._reconfig_request_seq) and "
             "self._reconfig_request_seq == (old(self._reconfig_request_seq) + 1) % (1 << 32))",
             f"implies(not ({NEWREQ}), "
             "same(self._reconfig_request, old(self._reconfig_request)) and self._reconfig_queue == old(self._reconfig_queue) and "
             "self._reconfig_request_seq == old(self._reconfig_request_seq))",
         ],
         modifies=["self._reconfig_queue", "self._reconfig_request", "self._reconfig_request_seq"],
         tags=["C13"])

contract(f"{M}:RTCSctpTransport._data_channel_closed", params={"stream_id": "int"},
         raises={"KeyError": "not (stream_id in self._data_channels)"},
         ensures=["not (stream_id in self._data_channels)",
                  "all_in(old(self._data_channels), lambda k: implies(k != stream_id, k in self._data_channels and "
                  "same(self._data_channels[k], old(self._data_channels[k]))))",
                  "all_in(self._data_channels, lambda k: k in old(self._data_channels))",
                  "now(old(self._data_channels[stream_id])).__readyState == 'closed'"],
         modifies=["content(self._data_channels)", "*RTCDataChannel._RTCDataChannel__readyState", "*list<Seq_Str>"],
         tags=["C13"])

MATCH = "(old(self._reconfig_request) is not None and param.response_sequence == old(self._reconfig_request.request_sequence))"
contract(f"{M}:RTCSctpTransport._receive_reconfig_param", params={"param": "$PKT"},
         instances=[{"PKT": "StreamResetResponseParam"}],
         requires=["0 <= self._reconfig_request_seq < (1 << 32)", "0 <= self._local_tsn < (1 << 32)",
                   # streams of the outstanding request are registered channels (they were when queued by
                   # _data_channel_close, and only this function unregisters them); a stream listed twice still raises
                   "implies(self._reconfig_request is not None, forall(lambda i: self._reconfig_request.streams[i] in "
                   "self._data_channels, 0, len(self._reconfig_request.streams)))"],
         # a stream of the answered request that is no longer registered makes _data_channel_closed raise (not decided here)
         raises={"KeyError": "?self._reconfig_request is not None and "
                             "param.response_sequence == self._reconfig_request.request_sequence"},
         ensures=[
             # the answered request is no longer the outstanding one
             f"implies({MATCH}, not same(self._reconfig_request, old(self._reconfig_request)))",
             # progress: streams still queued after the response are covered by a new outstanding request, so a close()
             # issued while an earlier reset was in flight is not stranded
             f"implies({MATCH} and {EST} and old(len(self._reconfig_queue)) > 0, self._reconfig_request is not None and "
             "self._reconfig_request.streams == old(self._reconfig_queue[0:135]))",
             # the streams of the answered request are closed and unregistered
             f"implies({MATCH}, forall(lambda i: not (old(self._reconfig_request.streams[i]) in self._data_channels), 0, "
             "old(len(self._reconfig_request.streams))))",
             # a response that matches nothing changes nothing
             f"implies(not {MATCH}, same(self._reconfig_request, old(self._reconfig_request)) and "
             "self._reconfig_queue == old(self._reconfig_queue))",
         ],
         loops={1: {"kind": "for", "index": "i0", "invariant": [
             "same(self._reconfig_request, old(self._reconfig_request)) and self._reconfig_request is not None",
             "self._reconfig_request.streams == old(self._reconfig_request.streams)",
             "self._reconfig_queue == old(self._reconfig_queue) and self._reconfig_request_seq == old(self._reconfig_request_seq)",
             "forall(lambda i: not (old(self._reconfig_request.streams[i]) in self._data_channels), 0, i0)",
         ]}},
         modifies=["self._reconfig_queue", "self._reconfig_request", "self._reconfig_request_seq",
                   "content(self._outbound_stream_seq)", "content(self._data_channels)",
                   "*RTCDataChannel._RTCDataChannel__readyState", "*list<Seq_Str>"],
         opaque_calls=["__log_debug"],
         tags=["C13"])
