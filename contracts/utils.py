"""aiortc.utils: serial-number arithmetic (C17) — contracts and lemmas."""
from pyvc.contracts import contract, lemma, spec

for bits, mod, half in ((16, 1 << 16, 1 << 15), (32, 1 << 32, 1 << 31)):
    contract(f"aiortc.utils:uint{bits}_add",
             params={"a": "int", "b": "int"}, returns="int",
             ensures=[f"result == (a + b) % {mod}", f"0 <= result < {mod}"],
             tags=["C17"], witness=[{"a": mod - 1, "b": 1}])
    # serial "greater than": a is ahead of b by less than half the space
    contract(f"aiortc.utils:uint{bits}_gt",
             params={"a": "int", "b": "int"}, returns="bool",
             requires=[f"0 <= a < {mod}", f"0 <= b < {mod}"],
             ensures=[f"result == (a != b and (a - b) % {mod} < {half})"],
             tags=["C17"], witness=[{"a": 0, "b": mod - 1}])
    contract(f"aiortc.utils:uint{bits}_gte",
             params={"a": "int", "b": "int"}, returns="bool",
             requires=[f"0 <= a < {mod}", f"0 <= b < {mod}"],
             ensures=[f"result == ((a - b) % {mod} < {half})"],
             tags=["C17"], witness=[{"a": 5, "b": 5}])
    spec(f"sgt{bits}", ["a", "b"], f"a != b and (a - b) % {mod} < {half}")
    spec(f"sadd{bits}", ["a", "b"], f"(a + b) % {mod}")
    V = {"a": "int", "b": "int", "k": "int", "d": "int"}
    R = [f"0 <= a < {mod}", f"0 <= b < {mod}"]
    lemma(f"serial{bits}_irreflexive", V, R, f"not sgt{bits}(a, a)", tags=["C17"])
    lemma(f"serial{bits}_antisymmetric", V, R, f"not (sgt{bits}(a, b) and sgt{bits}(b, a))", tags=["C17"])
    lemma(f"serial{bits}_total_off_half", V, R + [f"(a - b) % {mod} != {half}", "a != b"],
          f"sgt{bits}(a, b) or sgt{bits}(b, a)", tags=["C17"])
    lemma(f"serial{bits}_half_neither", V, R + [f"(a - b) % {mod} == {half}"],
          f"not sgt{bits}(a, b) and not sgt{bits}(b, a)", tags=["C17"],
          note="at distance exactly half the space neither is greater (documented, not a defect)")
    lemma(f"serial{bits}_add_ahead", V, R + [f"0 < d < {half}"],
          [f"sgt{bits}(sadd{bits}(a, d), a)", f"not sgt{bits}(a, sadd{bits}(a, d))"], tags=["C17"])
    lemma(f"serial{bits}_translation", V, R,
          f"sgt{bits}(a, b) == sgt{bits}(sadd{bits}(a, k), sadd{bits}(b, k))", tags=["C17"])
