"""aiortc.rtcsctptransport: partial reliability, sender side (C06): building the FORWARD-TSN from the abandoned prefix
of the sent queue (RFC 3758 section 3.5, A2-A5)."""
from pyvc.contracts import contract, lemma, spec, harness, klass

M = "aiortc.rtcsctptransport"
klass(f"{M}:RTCSctpTransport",
      fields={"_last_sacked_tsn": "int", "_advanced_peer_ack_tsn": "int", "_sent_queue": "deque[DataChunk]",
              "_forward_tsn_chunk": "opt[ForwardTsnChunk]"})

ORDERED = "(({0}.flags // 4) % 2 == 0)"
Q = "old(self._sent_queue[{0}])"
N = "(old(len(self._sent_queue)) - len(self._sent_queue))"     # number of chunks popped
WITHN = ("forall(lambda n: implies(n == old(len(self._sent_queue)) - len(self._sent_queue), {body}), "
         "0, old(len(self._sent_queue)) + 1)")

contract(f"{M}:RTCSctpTransport._update_advanced_peer_ack_point",
         requires=["0 <= self._last_sacked_tsn < (1 << 32)", "0 <= self._advanced_peer_ack_tsn < (1 << 32)",
                   "all_in(self._sent_queue, lambda c: 0 <= c.flags < 256 and 0 <= c.tsn < (1 << 32))"],
         raises={},
         ensures=[
             # exactly the abandoned prefix of the sent queue is popped (n = number of chunks popped; it is bound by a
             # quantifier because old() evaluates its whole argument in the pre-state)
             f"0 <= {N} <= old(len(self._sent_queue))",
             WITHN.format(body=f"forall(lambda j: {Q.format('j')}._abandoned, 0, n)"),
             WITHN.format(body="forall(lambda j: same(self._sent_queue[j], old(self._sent_queue[j + n])), 0, len(self._sent_queue))"),
             "implies(len(self._sent_queue) > 0, not self._sent_queue[0]._abandoned)",
             # nothing abandoned at the head: no FORWARD-TSN is built
             f"implies({N} == 0, same(self._forward_tsn_chunk, old(self._forward_tsn_chunk)))",
             # otherwise the FORWARD-TSN carries the TSN of the last popped chunk ...
             WITHN.format(body="implies(n > 0, self._forward_tsn_chunk is not None and fresh(self._forward_tsn_chunk) and "
                               "self._forward_tsn_chunk.cumulative_tsn == old(self._sent_queue[n - 1].tsn) and "
                               "self._advanced_peer_ack_tsn == old(self._sent_queue[n - 1].tsn))"),
             # ... and, for every ordered stream with an abandoned message, the stream sequence number of the *last* popped
             # ordered chunk of that stream (not the numerically largest: sequence numbers wrap)
             WITHN.format(body=f"implies(n > 0, all_in(self._forward_tsn_chunk.streams, lambda p: exists(lambda j: "
                               f"{ORDERED.format(Q.format('j'))} and {Q.format('j')}.stream_id == p[0] and {Q.format('j')}.stream_seq == p[1] and "
                               f"forall(lambda k: not ({ORDERED.format(Q.format('k'))} and {Q.format('k')}.stream_id == p[0]), j + 1, n), 0, n)))"),
             WITHN.format(body=f"implies(n > 0, forall(lambda j: implies({ORDERED.format(Q.format('j'))}, "
                               f"exists(lambda i: self._forward_tsn_chunk.streams[i][0] == {Q.format('j')}.stream_id, 0, "
                               f"len(self._forward_tsn_chunk.streams))), 0, n))"),
         ],
         locals={"streams": "dict[int,int]", "chunk": "DataChunk"},
         loops={0: dict(kind="while",
                        invariant=[
                            "0 <= done <= old(len(self._sent_queue))", "wit(done - 1)",
                            "len(self._sent_queue) == old(len(self._sent_queue)) - done",
                            "forall(lambda j: same(self._sent_queue[j], old(self._sent_queue[j + done])), 0, len(self._sent_queue))",
                            f"forall(lambda j: {Q.format('j')}._abandoned, 0, done)",
                            f"implies(done > 0, self._advanced_peer_ack_tsn == old(self._sent_queue[done - 1].tsn))",
                            "same(self._forward_tsn_chunk, old(self._forward_tsn_chunk))",
                            f"all_in(streams, lambda sid: exists(lambda j: {ORDERED.format(Q.format('j'))} and "
                            f"{Q.format('j')}.stream_id == sid and {Q.format('j')}.stream_seq == streams[sid] and "
                            f"forall(lambda k: not ({ORDERED.format(Q.format('k'))} and {Q.format('k')}.stream_id == sid), j + 1, done), 0, done))",
                            f"forall(lambda j: implies({ORDERED.format(Q.format('j'))}, {Q.format('j')}.stream_id in streams), 0, done)",
                        ],
                        decreases="len(self._sent_queue)",
                        modifies=["content(self._sent_queue)", "self._advanced_peer_ack_tsn", "content(streams)"])},
         modifies=["self._advanced_peer_ack_tsn", "content(self._sent_queue)", "self._forward_tsn_chunk"],
         tags=["C06"])
