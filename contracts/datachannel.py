"""aiortc.rtcdatachannel: RTCDataChannel bookkeeping (C13: exact bufferedAmount, bufferedamountlow exactly on downward
crossings of the threshold, open/close events only on a change into that state).

Events are observable through the ghost field `emitted` (the names passed to emit(), in order).  Listeners are assumed
not to re-enter the channel while the event is being emitted."""
from pyvc.contracts import contract, lemma, spec, harness, klass

M = "aiortc.rtcdatachannel"
klass(f"{M}:RTCDataChannel",
      fields={"__bufferedAmount": "int", "__bufferedAmountLowThreshold": "int", "__readyState": "str", "__id": "opt[int]",
              "__parameters": "RTCDataChannelParameters", "__transport": "any", "__send_open": "bool"},
      ghost_fields={"emitted": "list[str]", "message_data": "list[bytes]", "message_is_text": "list[bool]"})

klass(f"{M}:RTCDataChannelParameters",
      fields={"label": "str", "maxPacketLifeTime": "opt[int]", "maxRetransmits": "opt[int]", "ordered": "bool",
              "protocol": "str", "negotiated": "bool", "id": "opt[int]"})

contract(f"{M}:RTCDataChannel._addBufferedAmount", params={"amount": "int"},
         raises={},
         ensures=["self.__bufferedAmount == old(self.__bufferedAmount) + amount",
                  # the event fires exactly when the amount goes from above the threshold to at or below it
                  "implies(old(self.__bufferedAmount) > self.__bufferedAmountLowThreshold and "
                  "old(self.__bufferedAmount) + amount <= self.__bufferedAmountLowThreshold, "
                  "len(self.emitted) == old(len(self.emitted)) + 1 and self.emitted[len(self.emitted) - 1] == 'bufferedamountlow')",
                  "implies(not (old(self.__bufferedAmount) > self.__bufferedAmountLowThreshold and "
                  "old(self.__bufferedAmount) + amount <= self.__bufferedAmountLowThreshold), "
                  "len(self.emitted) == old(len(self.emitted)))",
                  # earlier events stay as they are
                  "len(self.emitted) >= old(len(self.emitted)) and "
                  "forall(lambda i: self.emitted[i] == old(self.emitted[i]), 0, old(len(self.emitted)))"],
         # listeners run inside emit() and may call send() on the same channel (the back-pressure idiom): they must see
         # the amount already updated, and nothing may be written after they ran (after_emit obligations)
         at_emit=["self.__bufferedAmount == old(self.__bufferedAmount) + amount"],
         modifies=["self.__bufferedAmount", "content(self.emitted)"], tags=["C13"],
         witness=[{"self": {"$class": "RTCDataChannel", "__bufferedAmount": 10, "__bufferedAmountLowThreshold": 4,
                            "__readyState": "open", "__id": 1}, "amount": -6}])

contract(f"{M}:RTCDataChannel._setReadyState", params={"state": "str"},
         raises={},
         ensures=["self.__readyState == state",
                  # 'open' / 'close' are emitted only on a change into that state, at most once per call
                  "implies(state == old(self.__readyState), len(self.emitted) == old(len(self.emitted)))",
                  "implies(state != old(self.__readyState) and state == 'open', len(self.emitted) == old(len(self.emitted)) + 1 and "
                  "self.emitted[len(self.emitted) - 1] == 'open')",
                  "implies(state != old(self.__readyState) and state == 'closed', len(self.emitted) == old(len(self.emitted)) + 1 and "
                  "self.emitted[len(self.emitted) - 1] == 'close')",
                  "implies(state != old(self.__readyState) and state != 'open' and state != 'closed', "
                  "len(self.emitted) == old(len(self.emitted)))",
                  "len(self.emitted) >= old(len(self.emitted)) and "
                  "forall(lambda i: self.emitted[i] == old(self.emitted[i]), 0, old(len(self.emitted)))"],
         at_emit=["self.__readyState == state"],
         modifies=["self.__readyState", "content(self.emitted)"], tags=["C13"])

# constructor as used by the transport for a remotely opened channel (send_open=False): no transport call is made
contract(f"{M}:RTCDataChannel.__init__",
         params={"transport": "any", "parameters": "RTCDataChannelParameters", "send_open": "bool"},
         requires=["not parameters.negotiated", "not send_open"],
         raises={},
         ensures=["same(self.__parameters, parameters)", "self.__id == parameters.id", "self.__readyState == 'connecting'",
                  "self.__bufferedAmount == 0 and self.__bufferedAmountLowThreshold == 0", "len(self.emitted) == 0"],
         modifies=["self.__bufferedAmount", "self.__bufferedAmountLowThreshold", "self.__id", "self.__parameters",
                   "self.__readyState", "self.__transport", "self.__send_open", "self.emitted"],
         tags=["C13"])
