"""aiortc.rtp: RFC 5285 header extensions (C05 layer 1, C07 O-5/O-6)."""
from pyvc.contracts import contract, lemma, spec, harness, klass

M = "aiortc.rtp"

klass(f"{M}:HeaderExtensions", fields={
    "abs_send_time": "opt[int]", "audio_level": "opt[tuple[bool,int]]", "mid": "opt[str]",
    "repaired_rtp_stream_id": "opt[str]", "rtp_stream_id": "opt[str]",
    "transmission_offset": "opt[int]", "transport_sequence_number": "opt[int]"})
klass(f"{M}:HeaderExtensionsMap", fields={"_HeaderExtensionsMap__ids": "HeaderExtensionsIds"})
# the id table is a HeaderExtensions instance whose fields hold ids (ints), not values
klass(f"{M}:HeaderExtensionsIds", fields={
    "abs_send_time": "opt[int]", "audio_level": "opt[int]", "mid": "opt[int]", "repaired_rtp_stream_id": "opt[int]",
    "rtp_stream_id": "opt[int]", "transmission_offset": "opt[int]", "transport_sequence_number": "opt[int]"})

# C05: whatever the header-extension block of a received RTP packet contains, decoding it raises ValueError at most
# (UnicodeDecodeError is a ValueError); _handle_rtp_data catches exactly that
contract(f"{M}:HeaderExtensionsMap.get", params={"extension_profile": "int", "extension_value": "bytes"},
         returns="HeaderExtensions",
         raises={"ValueError": None},
         ensures=["fresh(result)"],
         locals={"values": "HeaderExtensions"},
         loops={0: dict(kind="for", index="i", invariant=["fresh(values)"])},
         fresh_result=True, tags=["C05"],
         witness=[{"self": {"$class": "HeaderExtensionsMap", "_HeaderExtensionsMap__ids": {"$class": "HeaderExtensionsIds"}},
                   "extension_profile": 0xBEDE, "extension_value": bytes.fromhex("900102030000")}] +
                 # a fixed-size extension carried with another length (the F-4 inputs) and with its own length
                 [{"self": {"$class": "HeaderExtensionsMap", "_HeaderExtensionsMap__ids": {
                       "$class": "HeaderExtensionsIds", "abs_send_time": 1, "transmission_offset": 2, "audio_level": 3,
                       "transport_sequence_number": 4, "mid": 5}},
                   "extension_profile": 0xBEDE, "extension_value": bytes.fromhex(v)}
                  for v in ("10aa0000", "20aa0000", "31aabb00", "40aa0000", "12aabbcc", "30aa0000", "5061")])

contract(f"{M}:unpack_header_extensions",
         params={"extension_profile": "int", "extension_value": "bytes"},
         returns="list[tuple[int,bytes]]",
         raises={"ValueError": None},
         ensures=["forall(lambda j: 0 <= result[j][0] <= 255 and len(result[j][1]) <= 255, 0, len(result))",
                  "implies(extension_profile == 0xBEDE, forall(lambda j: result[j][0] <= 15 and 1 <= len(result[j][1]) <= 16, 0, len(result)))",
                  "len(result) <= len(extension_value)"],
         locals={"extensions": "list[tuple[int,bytes]]"},
         loops={0: dict(kind="while",
                        invariant=["0 <= pos", "len(extensions) <= pos", "pos <= len(extension_value)",
                                   "forall(lambda j: 0 <= extensions[j][0] <= 15 and 1 <= len(extensions[j][1]) <= 16, 0, len(extensions))"],
                        decreases="len(extension_value) - pos"),
                1: dict(kind="while",
                        invariant=["0 <= pos", "len(extensions) <= pos", "pos <= len(extension_value)",
                                   "forall(lambda j: 0 <= extensions[j][0] <= 255 and len(extensions[j][1]) <= 255, 0, len(extensions))"],
                        decreases="len(extension_value) - pos")},
         tags=["C05", "C07"],
         witness=[{"extension_profile": 0xBEDE, "extension_value": bytes.fromhex("900102030000")}])

contract(f"{M}:pack_header_extensions",
         params={"extensions": "list[tuple[int,bytes]]"},
         returns="tuple[int,bytes]",
         requires=["forall(lambda j: 0 < extensions[j][0] < 256 and len(extensions[j][1]) < 256, 0, len(extensions))"],
         ensures=["len(result[1]) % 4 == 0",
                  "implies(len(extensions) == 0, result[0] == 0 and len(result[1]) == 0)",
                  "implies(len(extensions) > 0, result[0] == 0xBEDE or result[0] == 0x1000)",
                  "implies(len(extensions) > 0, len(result[1]) > 0)",
                  "0 <= result[0] < 65536"],
         loops={0: dict(kind="for", index="i",
                        invariant=["implies(one_byte, forall(lambda j: extensions[j][0] <= 14 and 1 <= len(extensions[j][1]) <= 16, 0, i))"]),
                1: dict(kind="for", index="i", invariant=["len(extension_value) >= i"]),
                2: dict(kind="for", index="i", invariant=["len(extension_value) >= 2 * i"])},
         tags=["C07"],
         witness=[{"extensions": [(1, b"\x01\x02"), (15, b"")]}])

# C07: what HeaderExtensionsMap.set hands to pack_header_extensions is, for every configured extension, a value of exactly
# the size HeaderExtensionsMap.get accepts (3 / 3 / 1 / 2 bytes; F-10: toffset was written with 2 bytes), under the id the
# table assigns to it. Ids are pairwise distinct, as configure() assigns them from distinct SDP extmap lines.
_FIXED = ["abs_send_time", "transmission_offset", "audio_level", "transport_sequence_number"]
_ALL = ["mid", "repaired_rtp_stream_id", "rtp_stream_id"] + _FIXED
_IDS = "self.__ids"
_distinct = [f"implies({_IDS}.{a} is not None and {_IDS}.{b} is not None, {_IDS}.{a} != {_IDS}.{b})"
             for i, a in enumerate(_ALL) for b in _ALL[i + 1:]]
_in_range = [f"implies({_IDS}.{a} is not None, 0 <= {_IDS}.{a} < 256)" for a in _ALL]
_SIZE = {"abs_send_time": 3, "transmission_offset": 3, "audio_level": 1, "transport_sequence_number": 2}
contract(f"{M}:HeaderExtensionsMap.set", params={"values": "HeaderExtensions"},
         returns="tuple[int,bytes]",
         requires=_distinct + _in_range + [
             "implies(values.abs_send_time is not None, 0 <= values.abs_send_time < 16777216)",
             "implies(values.transmission_offset is not None, -8388608 <= values.transmission_offset < 8388608)",
             "implies(values.audio_level is not None, 0 <= values.audio_level[1] < 128)",
             "implies(values.transport_sequence_number is not None, 0 <= values.transport_sequence_number < 65536)",
             "implies(values.mid is not None, len(utf8(values.mid)) < 256)",
             "implies(values.repaired_rtp_stream_id is not None, len(values.repaired_rtp_stream_id) < 256)",
             "implies(values.rtp_stream_id is not None, len(values.rtp_stream_id) < 256)"],
         ensures=["len(result[1]) % 4 == 0", "0 <= result[0] < 65536"],
         at_call={"pack_header_extensions": [
             "forall(lambda j: 0 < extensions[j][0] < 256 and len(extensions[j][1]) < 256, 0, len(extensions))"] + [
             f"forall(lambda j: implies(extensions[j][0] == {_IDS}.{f}, len(extensions[j][1]) == {n}), 0, len(extensions))"
             for f, n in _SIZE.items()] + [
             # the values themselves, in the encoding HeaderExtensionsMap.get decodes (24-bit unsigned, 24-bit two's
             # complement, V bit + 7-bit level, 16-bit unsigned)
             f"forall(lambda j: implies(extensions[j][0] == {_IDS}.abs_send_time, u24(extensions[j][1], 0) == values.abs_send_time), 0, len(extensions))",
             f"forall(lambda j: implies(extensions[j][0] == {_IDS}.transmission_offset, i24(extensions[j][1], 0) == values.transmission_offset), 0, len(extensions))",
             f"forall(lambda j: implies(extensions[j][0] == {_IDS}.audio_level, u8(extensions[j][1], 0) == ite(values.audio_level[0], 128, 0) + values.audio_level[1]), 0, len(extensions))",
             f"forall(lambda j: implies(extensions[j][0] == {_IDS}.transport_sequence_number, u16(extensions[j][1], 0) == values.transport_sequence_number), 0, len(extensions))",
             # nothing configured is left out and nothing is sent twice: one entry per value that is set and whose
             # extension has a (non-zero) id
             "len(extensions) == " + " + ".join(
                 f"ite(values.{f} is not None and {_IDS}.{f} is not None and {_IDS}.{f} != 0, 1, 0)" for f in _ALL)]},
         # a stream id that is not ASCII is refused with UnicodeEncodeError, a ValueError
         raises={"ValueError": None},
         locals={"extensions": "list[tuple[int,bytes]]"},
         tags=["C07"],
         witness=[{"self": {"$class": "HeaderExtensionsMap", "_HeaderExtensionsMap__ids": {
                       "$class": "HeaderExtensionsIds", "abs_send_time": 1, "transmission_offset": 2, "audio_level": 3,
                       "transport_sequence_number": 4, "mid": 5}},
                   "values": {"$class": "HeaderExtensions", "abs_send_time": 7, "transmission_offset": -5,
                              "audio_level": (True, 30), "transport_sequence_number": 9, "mid": "a"}}])
