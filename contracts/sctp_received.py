"""aiortc.rtcsctptransport: receive-side TSN bookkeeping (C01 exactly-once / C17 independence from the TSN origin):
_mark_received keeps the cumulative TSN point and the set of TSNs received out of order (RFC 4960 section 6.2)."""
from pyvc.contracts import contract, lemma, spec, harness, klass

M = "aiortc.rtcsctptransport"
klass(f"{M}:RTCSctpTransport",
      fields={"_last_received_tsn": "int", "_sack_misordered": "set[int]", "_sack_duplicates": "list[int]"})

U32 = "0 <= {0} < (1 << 32)"
DUP = "(((old(self._last_received_tsn) - tsn) % (1 << 32)) < (1 << 31) or tsn in old(self._sack_misordered))"
contract(f"{M}:RTCSctpTransport._mark_received", params={"tsn": "int"}, returns="bool",
         requires=[U32.format("tsn"), U32.format("self._last_received_tsn"),
                   "all_in(self._sack_misordered, lambda x: 0 <= x < (1 << 32))"],
         raises={},
         ensures=[
             # a TSN at or before the cumulative point, or already held, is a duplicate: reported, nothing else changes
             f"result == {DUP}",
             f"implies(result, self._last_received_tsn == old(self._last_received_tsn) and "
             "len(self._sack_duplicates) == old(len(self._sack_duplicates)) + 1 and "
             "self._sack_duplicates[len(self._sack_duplicates) - 1] == tsn and "
             "all_in(old(self._sack_misordered), lambda x: x in self._sack_misordered) and "
             "all_in(self._sack_misordered, lambda x: x in old(self._sack_misordered)))",
             # otherwise the cumulative point is consolidated completely: the TSN after it is not waiting in the set,
             # wherever the 32-bit numbers wrap
             "implies(not result, not (((self._last_received_tsn + 1) % (1 << 32)) in self._sack_misordered))",
             f"implies(not result, {U32.format('self._last_received_tsn')} and "
             "all_in(self._sack_misordered, lambda x: 0 <= x < (1 << 32) and (x == tsn or x in old(self._sack_misordered))))",
             # the new TSN is accounted for: held out of order, or covered by the cumulative point
             "implies(not result, tsn in self._sack_misordered or not (((tsn - self._last_received_tsn) % (1 << 32)) != 0 and "
             "((tsn - self._last_received_tsn) % (1 << 32)) < (1 << 31)))",
         ],
         modifies=["self._last_received_tsn", "self._sack_misordered", "content(self._sack_misordered)",
                   "self._sack_duplicates", "content(self._sack_duplicates)"],
         loops={0: dict(kind="while", decreases="unproved", invariant=[
             U32.format("self._last_received_tsn"),
             "all_in(self._sack_misordered, lambda x: 0 <= x < (1 << 32) and (x == tsn or x in old(self._sack_misordered)))",
             "tsn in self._sack_misordered"])},
         tags=["C01", "C17"])

# ---------------------------------------------------------------------------- FORWARD-TSN, receiver side (C06, C05)
klass(f"{M}:RTCSctpTransport",
      fields={"_sack_needed": "bool", "_advertised_rwnd": "int", "_inbound_streams": "dict[int,InboundStream]"})

contract(f"{M}:RTCSctpTransport._get_inbound_stream", params={"stream_id": "int"}, returns="InboundStream",
         raises={},
         ensures=["stream_id in self._inbound_streams and same(result, self._inbound_streams[stream_id])",
                  "all_in(old(self._inbound_streams), lambda k: k in self._inbound_streams and "
                  "same(self._inbound_streams[k], old(self._inbound_streams[k])))",
                  "all_in(self._inbound_streams, lambda k: k == stream_id or k in old(self._inbound_streams))",
                  "implies(not (stream_id in old(self._inbound_streams)), fresh(result) and result.sequence_number == 0 and "
                  "len(result.reassembly) == 0)"],
         modifies=["content(self._inbound_streams)"],
         tags=["C06", "C05"])

# Assumed: handing a reassembled message to the data-channel layer touches neither the TSN bookkeeping nor any inbound
# stream, and raises nothing (its decoding side is under contract in sctp_dcep.py for DATA_CHANNEL_OPEN).
contract(f"{M}:RTCSctpTransport._receive", params={"stream_id": "int", "pp_id": "int", "data": "bytes"},
         raises={}, ensures=[],
         modifies=["content(self._data_channels)", "content(self._data_channel_queue)", "*RTCDataChannel._RTCDataChannel__id",
                   "*RTCDataChannel._RTCDataChannel__readyState", "*RTCDataChannel._RTCDataChannel__bufferedAmount",
                   "*list<Seq_Str>"],
         trusted=True, tags=["C06", "C05"],
         note="assumed: _receive (delivery to the data-channel layer) leaves TSN bookkeeping and inbound streams alone")

STREAM_OK = ("all_in(self._inbound_streams, lambda k: 0 <= self._inbound_streams[k].sequence_number < 65536 and "
             "all_in(self._inbound_streams[k].reassembly, lambda c: 0 <= c.tsn < (1 << 32) and 0 <= c.stream_seq < 65536 and "
             "0 <= c.flags < 256))")
KEEP = ["self._sack_needed", U32.format("self._last_received_tsn"),
        "all_in(self._sack_misordered, lambda x: 0 <= x < (1 << 32) and x in old(self._sack_misordered))",
        "not (((self._last_received_tsn + 1) % (1 << 32)) in self._sack_misordered)",
        "not same(self._inbound_streams, self._data_channels)"]
FWD_DUP = "(((old(self._last_received_tsn) - chunk.cumulative_tsn) % (1 << 32)) < (1 << 31))"
contract(f"{M}:RTCSctpTransport._receive_forward_tsn_chunk", params={"chunk": "ForwardTsnChunk"},
         requires=[U32.format("self._last_received_tsn"), U32.format("chunk.cumulative_tsn"),
                   "all_in(self._sack_misordered, lambda x: 0 <= x < (1 << 32))",
                   "all_in(self._sack_duplicates, lambda x: 0 <= x < (1 << 32))",
                   "all_in(chunk.streams, lambda p: 0 <= p[0] < 65536 and 0 <= p[1] < 65536)",
                   STREAM_OK,
                   # two different tables (they share a static type, hence a heap map)
                   "not same(self._inbound_streams, self._data_channels)"],
         raises={},
         ensures=[
             "self._sack_needed",
             # a FORWARD-TSN at or behind the cumulative point changes nothing else
             f"implies({FWD_DUP}, self._last_received_tsn == old(self._last_received_tsn))",
             # otherwise the cumulative point is at or past the forwarded TSN and consolidated, wherever the numbers wrap
             f"implies(not {FWD_DUP}, not (((self._last_received_tsn + 1) % (1 << 32)) in self._sack_misordered))",
             U32.format("self._last_received_tsn"),
             "all_in(self._sack_misordered, lambda x: 0 <= x < (1 << 32) and x in old(self._sack_misordered))",
             # every inbound stream is still well formed: in particular the expected stream sequence number of a
             # stream named by the chunk stays a 16-bit number (65535 + 1 wraps to 0)
             STREAM_OK,
         ],
         loops={
             0: dict(kind="while", decreases="unproved", invariant=[
                 U32.format("self._last_received_tsn"),
                 "all_in(self._sack_misordered, lambda x: 0 <= x < (1 << 32) and x in old(self._sack_misordered))"]),
             1: dict(kind="for", index="i1", invariant=[STREAM_OK] + KEEP),
             2: dict(kind="for", index="i2", invariant=[STREAM_OK] + KEEP),
             3: dict(kind="for", index="i3", invariant=[STREAM_OK] + KEEP),
         },
         locals={"inbound_stream": "InboundStream"},
         modifies=["self._sack_needed", "self._last_received_tsn", "self._sack_misordered", "self._sack_duplicates",
                   "self._advertised_rwnd", "content(self._inbound_streams)", "*InboundStream.sequence_number",
                   "*InboundStream.reassembly", "*list<Seq_Ref>",
                   "content(self._data_channels)", "content(self._data_channel_queue)", "*RTCDataChannel._RTCDataChannel__id",
                   "*RTCDataChannel._RTCDataChannel__readyState", "*RTCDataChannel._RTCDataChannel__bufferedAmount",
                   "*list<Seq_Str>"],
         tags=["C06", "C05", "C17"])
