"""aiortc.rtp: fixed-size codecs and helpers (C07 round trips, C05 layer 1, C18 wire ranges)."""
from pyvc.contracts import contract, lemma, spec, harness, klass

M = "aiortc.rtp"

# ---------------------------------------------------------------------------- helpers
contract(f"{M}:padl", params={"length": "int"}, returns="int",
         ensures=["0 <= result < 4", "(length + result) % 4 == 0"],
         tags=["C07", "C08"], witness=[{"length": 5}])

contract(f"{M}:clamp_packets_lost", params={"count": "int"}, returns="int",
         ensures=["-(1 << 23) <= result <= (1 << 23) - 1",
                  "implies(-(1 << 23) <= count <= (1 << 23) - 1, result == count)",
                  "implies(count < -(1 << 23), result == -(1 << 23))",
                  "implies(count > (1 << 23) - 1, result == (1 << 23) - 1)"],
         tags=["C07", "C18"], witness=[{"count": 1 << 30}])

contract(f"{M}:pack_packets_lost", params={"count": "int"}, returns="bytes",
         requires=["-(1 << 23) <= count <= (1 << 23) - 1"],
         ensures=["len(result) == 3", "i24(result, 0) == count"],
         tags=["C07", "C18"], witness=[{"count": -5}])

contract(f"{M}:unpack_packets_lost", params={"d": "bytes"}, returns="int",
         requires=["len(d) == 3"],
         ensures=["result == i24(d, 0)", "-(1 << 23) <= result <= (1 << 23) - 1"],
         tags=["C07", "C05"], witness=[{"d": b"\xff\xff\xfb"}])

contract(f"{M}:is_rtcp", params={"msg": "bytes"}, returns="bool",
         ensures=["result == (len(msg) >= 2 and 192 <= msg[1] <= 208)"],
         tags=["C05"], witness=[{"msg": b"\x80\xc8"}])

contract(f"{M}:pack_rtcp_packet", params={"packet_type": "int", "count": "int", "payload": "bytes"},
         returns="bytes",
         requires=["len(payload) % 4 == 0", "0 <= count < 32", "0 <= packet_type < 256",
                   "len(payload) // 4 < 65536"],
         ensures=["len(result) == 4 + len(payload)",
                  "result[0] == 128 + count", "result[1] == packet_type",
                  "u16(result, 2) == len(payload) // 4",
                  "result[4:] == payload"],
         tags=["C07"], witness=[{"packet_type": 201, "count": 1, "payload": b"\x00" * 28}])

# ---------------------------------------------------------------------------- REMB
contract(f"{M}:unpack_remb_fci", params={"data": "bytes"}, returns="tuple[int, list[int]]",
         raises={"ValueError": "len(data) < 8 or data[0:4] != b'REMB' or len(data) < 8 + 4 * data[4]"},
         ensures=["len(data) >= 8 + 4 * data[4]",
                  "result[0] == (((data[5] % 4) * 65536 + data[6] * 256 + data[7]) * pow2(data[5] // 4))",
                  "len(result[1]) == data[4]",
                  "forall(lambda j: result[1][j] == u32(data, 8 + 4 * j), 0, data[4])"],
         loops={0: dict(kind="for", index="r",
                        invariant=["pos == 8 + 4 * r", "len(ssrcs) == r",
                                   "forall(lambda j: ssrcs[j] == u32(data, 8 + 4 * j), 0, r)"])},
         locals={"ssrcs": "list[int]"},
         fresh_result=False,
         tags=["C05", "C07", "C12", "C15"],
         witness=[{"data": bytes.fromhex("52454d42010c1234deadbeef")}])

contract(f"{M}:pack_remb_fci", params={"bitrate": "int", "ssrcs": "list[int]"}, returns="bytes",
         requires=["0 <= bitrate < (1 << 64)", "len(ssrcs) < 256",
                   "forall(lambda j: 0 <= ssrcs[j] < (1 << 32), 0, len(ssrcs))"],
         ensures=["len(result) == 8 + 4 * len(ssrcs)",
                  "result[0:4] == b'REMB'", "result[4] == len(ssrcs)",
                  # exponent e and mantissa m on the wire: m = bitrate >> e, m < 2**18, minimal e
                  "((result[5] % 4) * 65536 + result[6] * 256 + result[7]) == bitrate // pow2(result[5] // 4)",
                  "0 <= result[5] // 4 <= 46",
                  "implies(result[5] // 4 > 0, ((result[5] % 4) * 65536 + result[6] * 256 + result[7]) >= (1 << 17))",
                  "forall(lambda j: u32(result, 8 + 4 * j) == ssrcs[j], 0, len(ssrcs))"],
         loops={0: dict(kind="while",
                        invariant=["exponent >= 0", "mantissa >= 0", "exponent <= 46",
                                   "mantissa == bitrate // pow2(exponent)",
                                   "mantissa * pow2(exponent) <= bitrate",
                                   "implies(exponent > 0, mantissa >= (1 << 17))",
                                   "bitrate < pow2(exponent + 18) or mantissa > 0x3FFFF"],
                        decreases="mantissa"),
                1: dict(kind="for", index="i",
                        invariant=["len(data) == 8 + 4 * i", "data[0:8] == old_data8",
                                   "forall(lambda j: u32(data, 8 + 4 * j) == ssrcs[j], 0, i)"],
                        ghost_before=["old_data8 = data[0:8]"])},
         tags=["C07", "C15"],
         witness=[{"bitrate": 4160000, "ssrcs": [0xDEADBEEF]}])

# ---------------------------------------------------------------------------- receiver / sender info
RI_FIELDS = ["ssrc", "fraction_lost", "packets_lost", "highest_sequence", "jitter", "lsr", "dlsr"]
RI_RANGE = ["0 <= self.ssrc < (1 << 32)", "0 <= self.fraction_lost < 256",
            "-(1 << 23) <= self.packets_lost <= (1 << 23) - 1",
            "0 <= self.highest_sequence < (1 << 32)", "0 <= self.jitter < (1 << 32)",
            "0 <= self.lsr < (1 << 32)", "0 <= self.dlsr < (1 << 32)"]
spec("ri_at", ["b", "o", "r"],
     "u32(b, o) == r.ssrc and b[o + 4] == r.fraction_lost and i24(b, o + 5) == r.packets_lost and "
     "u32(b, o + 8) == r.highest_sequence and u32(b, o + 12) == r.jitter and u32(b, o + 16) == r.lsr and "
     "u32(b, o + 20) == r.dlsr")
spec("ri_wire_ok", ["r"],
     "0 <= r.ssrc < (1 << 32) and 0 <= r.fraction_lost < 256 and -(1 << 23) <= r.packets_lost <= (1 << 23) - 1 and "
     "0 <= r.highest_sequence < (1 << 32) and 0 <= r.jitter < (1 << 32) and 0 <= r.lsr < (1 << 32) and "
     "0 <= r.dlsr < (1 << 32)")

contract(f"{M}:RtcpReceiverInfo.__bytes__", returns="bytes",
         requires=["ri_wire_ok(self)"],
         ensures=["len(result) == 24", "ri_at(result, 0, self)"],
         tags=["C07", "C18"],
         witness=[{"self": {"$class": "RtcpReceiverInfo", "ssrc": 1, "fraction_lost": 2, "packets_lost": -3,
                            "highest_sequence": 4, "jitter": 5, "lsr": 6, "dlsr": 7}}])

contract(f"{M}:RtcpReceiverInfo.parse", params={"data": "bytes"}, returns="RtcpReceiverInfo",
         requires=["len(data) == 24"],
         ensures=["ri_at(data, 0, result)", "ri_wire_ok(result)", "fresh(result)"],
         fresh_result=True,
         tags=["C07", "C05"],
         witness=[{"data": bytes(range(24))}])

harness("roundtrip_receiver_info", M, """
def h(x):
    y = RtcpReceiverInfo.parse(bytes(x))
    return y
""", params={"x": "RtcpReceiverInfo"}, returns="RtcpReceiverInfo",
        requires=["ri_wire_ok(x)"],
        ensures=["result == x", "result.ssrc == x.ssrc and result.packets_lost == x.packets_lost"],
        tags=["C07"])

spec("si_at", ["b", "o", "s"],
     "u64(b, o) == s.ntp_timestamp and u32(b, o + 8) == s.rtp_timestamp and u32(b, o + 12) == s.packet_count "
     "and u32(b, o + 16) == s.octet_count")
spec("si_wire_ok", ["s"],
     "0 <= s.ntp_timestamp < (1 << 64) and 0 <= s.rtp_timestamp < (1 << 32) and 0 <= s.packet_count < (1 << 32) "
     "and 0 <= s.octet_count < (1 << 32)")

contract(f"{M}:RtcpSenderInfo.__bytes__", returns="bytes",
         requires=["si_wire_ok(self)"],
         ensures=["len(result) == 20", "si_at(result, 0, self)"],
         tags=["C07"],
         witness=[{"self": {"$class": "RtcpSenderInfo", "ntp_timestamp": 1 << 40, "rtp_timestamp": 2,
                            "packet_count": 3, "octet_count": 4}}])

contract(f"{M}:RtcpSenderInfo.parse", params={"data": "bytes"}, returns="RtcpSenderInfo",
         requires=["len(data) == 20"],
         ensures=["si_at(data, 0, result)", "si_wire_ok(result)", "fresh(result)"],
         fresh_result=True, tags=["C07", "C05"], witness=[{"data": bytes(range(20))}])

harness("roundtrip_sender_info", M, """
def h(x):
    return RtcpSenderInfo.parse(bytes(x))
""", params={"x": "RtcpSenderInfo"}, returns="RtcpSenderInfo",
        requires=["si_wire_ok(x)"], ensures=["result == x"], tags=["C07"])

harness("roundtrip_packets_lost", M, """
def h(c):
    return unpack_packets_lost(pack_packets_lost(clamp_packets_lost(c)))
""", params={"c": "int"}, returns="int",
        ensures=["result == clamp_packets_lost_spec(c)",
                 "implies(-(1 << 23) <= c <= (1 << 23) - 1, result == c)"],
        tags=["C07", "C18"])
spec("clamp_packets_lost_spec", ["c"], "ite(c < -(1 << 23), -(1 << 23), ite(c > (1 << 23) - 1, (1 << 23) - 1, c))")
