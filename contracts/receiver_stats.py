"""aiortc.rtcrtpreceiver: StreamStatistics (C18: exact counts, RFC 3550 A.3 loss figures, values fit the wire)."""
from pyvc.contracts import contract, lemma, spec, harness, klass

M = "aiortc.rtcrtpreceiver"

# extended number of packets expected (RFC 3550 A.3): cycles + max_seq - base_seq + 1
# |x| for x read as a signed 32-bit difference (RFC 3550 A.8 computes in 32-bit arithmetic)
spec("sabs32", ["x"], "ite(x % (1 << 32) < (1 << 31), x % (1 << 32), (1 << 32) - x % (1 << 32))")
spec("ss_expected", ["s"], "s.cycles + s.max_seq - s.base_seq + 1")

SS_FIELDS = ["base_seq", "max_seq", "cycles", "packets_received", "_clockrate", "_jitter_q4", "_last_arrival",
             "_last_timestamp", "_expected_prior", "_received_prior"]
klass(f"{M}:StreamStatistics", fields={
    "base_seq": "opt[int]", "max_seq": "opt[int]", "cycles": "int", "packets_received": "int",
    "_clockrate": "int", "_jitter_q4": "int", "_last_arrival": "opt[int]", "_last_timestamp": "opt[int]",
    "_expected_prior": "int", "_received_prior": "int"},
    invariant=[
        "(self.base_seq is None) == (self.max_seq is None)",
        "(self.max_seq is None) == (self.packets_received == 0)",
        "self.packets_received >= 0",
        "implies(self.max_seq is not None, 0 <= self.max_seq < 65536 and 0 <= self.base_seq < 65536)",
        "self.cycles >= 0 and self.cycles % 65536 == 0",
        # |D| <= 2^31 in the A.8 recurrence keeps J <= 2^35 + 8, so the reported jitter (J >> 4) fits 32 bits
        "0 <= self._jitter_q4 <= (1 << 35) + 8",
        "implies(self.max_seq is not None, self._last_arrival is not None and self._last_timestamp is not None)",
        # the extended expected count starts at 1 and never decreases
        "implies(self.max_seq is not None, ss_expected(self) >= 1)",
        # interval accounting: whatever raised 'expected' since the last report was itself a received packet
        "0 <= self._received_prior <= self.packets_received",
        "implies(self.max_seq is None, self._expected_prior == 0 and self.cycles == 0)",
        "implies(self.max_seq is not None and ss_expected(self) > self._expected_prior, "
        "self.packets_received > self._received_prior)",
    ])

klass("aiortc.rtp:RtpPacket", fields={
    "version": "int", "marker": "int", "payload_type": "int", "sequence_number": "int", "timestamp": "int",
    "ssrc": "int", "csrc": "list[int]", "payload": "bytes", "padding_size": "int",
    "_data": "bytes"})   # _data: depayloaded media, attached by RTCRtpReceiver before JitterBuffer.add

contract(f"{M}:StreamStatistics.__init__", params={"clockrate": "int"},
         ensures=["self.packets_received == 0", "self.max_seq is None", "self._clockrate == clockrate"],
         modifies=["self." + f for f in SS_FIELDS], tags=["C18"])

contract(f"{M}:StreamStatistics.add", params={"packet": "RtpPacket"},
         requires=["0 <= packet.sequence_number < 65536", "0 <= packet.timestamp < (1 << 32)", "self._clockrate > 0"],
         ensures=[
             # packets are counted exactly
             "self.packets_received == old(self.packets_received) + 1",
             # first packet fixes the base
             "implies(old(self.base_seq) is None, self.base_seq == packet.sequence_number and self.max_seq == packet.sequence_number and self.cycles == 0)",
             "implies(old(self.base_seq) is not None, self.base_seq == old(self.base_seq))",
             # highest sequence number: advanced exactly when the packet is ahead (serial order), wrap counted in cycles
             "implies(old(self.max_seq) is not None and sgt16(packet.sequence_number, old(self.max_seq)), "
             "self.max_seq == packet.sequence_number and "
             "self.cycles + self.max_seq == old(self.cycles) + old(self.max_seq) + (packet.sequence_number - old(self.max_seq)) % 65536)",
             "implies(old(self.max_seq) is not None and not sgt16(packet.sequence_number, old(self.max_seq)), "
             "self.max_seq == old(self.max_seq) and self.cycles == old(self.cycles) and self._jitter_q4 == old(self._jitter_q4))",
             "self._expected_prior == old(self._expected_prior) and self._received_prior == old(self._received_prior)",
             # RFC 3550 A.8 over successive in-order packets that begin a new timestamp, differences modulo 2^32
             "implies(old(self.max_seq) is not None and sgt16(packet.sequence_number, old(self.max_seq)) and "
             "packet.timestamp != old(self._last_timestamp), "
             "self._jitter_q4 == old(self._jitter_q4) - (old(self._jitter_q4) + 8) // 16 + "
             "sabs32((self._last_arrival - old(self._last_arrival)) - (packet.timestamp - old(self._last_timestamp))))",
             "implies(old(self.max_seq) is not None and sgt16(packet.sequence_number, old(self.max_seq)) and "
             "packet.timestamp == old(self._last_timestamp), self._jitter_q4 == old(self._jitter_q4))",
         ],
         modifies=["self.base_seq", "self.max_seq", "self.cycles", "self.packets_received", "self._jitter_q4",
                   "self._last_arrival", "self._last_timestamp"],
         tags=["C18", "C17"])

contract(f"{M}:StreamStatistics.packets_expected", returns="int",
         requires=["self.max_seq is not None"],
         ensures=["result == ss_expected(self)", "result >= 1"],
         tags=["C18"])

contract(f"{M}:StreamStatistics.packets_lost", returns="int",
         requires=["self.max_seq is not None"],
         ensures=["result == clamp_packets_lost_spec(ss_expected(self) - self.packets_received)",
                  "-(1 << 23) <= result <= (1 << 23) - 1"],
         tags=["C18"])

contract(f"{M}:StreamStatistics.jitter", returns="int",
         ensures=["result == self._jitter_q4 // 16", "0 <= result < (1 << 32)"],
         tags=["C18"])

contract(f"{M}:StreamStatistics.fraction_lost", returns="int",
         requires=["self.max_seq is not None"],
         ensures=[
             # fits the 8-bit field
             "0 <= result <= 255",
             # RFC 3550 A.3 over the interval since the previous report
             "implies(ss_expected(self) - old(self._expected_prior) == 0 or "
             "(ss_expected(self) - old(self._expected_prior)) - (self.packets_received - old(self._received_prior)) <= 0, result == 0)",
             "implies(ss_expected(self) - old(self._expected_prior) != 0 and "
             "(ss_expected(self) - old(self._expected_prior)) - (self.packets_received - old(self._received_prior)) > 0, "
             "result == (((ss_expected(self) - old(self._expected_prior)) - (self.packets_received - old(self._received_prior))) * 256) "
             "// (ss_expected(self) - old(self._expected_prior)))",
             "self._expected_prior == ss_expected(self) and self._received_prior == self.packets_received",
         ],
         modifies=["self._expected_prior", "self._received_prior"],
         tags=["C18"])

# ---------------------------------------------------------------------------- the RTCP report loop
# invariant of a StreamStatistics object that has seen at least one packet (what RTCRtpReceiver._handle_rtp_packet leaves
# in __remote_streams: a stream is created and add() is called at once), with fewer than 65535 sequence wraps
spec("ss_live", ["s"],
     "s.max_seq is not None and s.base_seq is not None and s.packets_received >= 1 and "
     "0 <= s.max_seq < 65536 and 0 <= s.base_seq < 65536 and s.cycles >= 0 and s.cycles % 65536 == 0 and "
     "s.cycles < (1 << 32) - 65536 and 0 <= s._jitter_q4 <= (1 << 35) + 8 and "
     "s._last_arrival is not None and s._last_timestamp is not None and ss_expected(s) >= 1 and "
     "0 <= s._received_prior <= s.packets_received and "
     "implies(ss_expected(s) > s._expected_prior, s.packets_received > s._received_prior)")

klass(f"{M}:RTCRtpReceiver",
      fields={"__remote_streams": "dict[int,StreamStatistics]", "__lsr": "dict[int,int]", "__lsr_time": "dict[int,float]",
              "__rtcp_ssrc": "opt[int]", "__rtcp_started": "any", "__rtcp_exited": "any", "__transport": "any"})

RECV_OK = ["len(self.__remote_streams) <= 31",
           "all_in(self.__remote_streams, lambda k: 0 <= k < (1 << 32) and ss_live(self.__remote_streams[k]))",
           "all_in(self.__lsr, lambda k: 0 <= self.__lsr[k] < (1 << 32) and k in self.__lsr_time)",
           "implies(self.__rtcp_ssrc is not None, 0 <= self.__rtcp_ssrc < (1 << 32))",
           "not same(self.__lsr, self.__remote_streams)"]

contract(f"{M}:RTCRtpReceiver._send_rtcp", params={"packet": "RtcpRrPacket"},
         requires=["0 <= packet.ssrc < (1 << 32) and len(packet.reports) < 32 and all_in(packet.reports, lambda r: ri_wire_ok(r))"],
         raises={}, modifies=[], tags=["C18"])

contract(f"{M}:RTCRtpReceiver._run_rtcp",
         requires=RECV_OK, raises={},
         locals={"reports": "list[RtcpReceiverInfo]"},
         loops={0: dict(kind="while", invariant=RECV_OK, decreases="forever",
                        modifies=["*StreamStatistics._expected_prior", "*StreamStatistics._received_prior"]),
                1: dict(kind="for", index="i",
                        invariant=RECV_OK + [
                            "len(reports) == i", "fresh(reports)",
                            "all_in(reports, lambda r: ri_wire_ok(r))",
                            # RFC 3550 6.4.1: the extended highest sequence number includes the wrap cycles
                            "forall(lambda j: reports[j].ssrc == loop_seq(1)[j][0] and "
                            "reports[j].highest_sequence == loop_seq(1)[j][1].cycles + loop_seq(1)[j][1].max_seq, 0, i)"],
                        modifies=["content(reports)", "*StreamStatistics._expected_prior", "*StreamStatistics._received_prior"])},
         modifies=["*StreamStatistics._expected_prior", "*StreamStatistics._received_prior"],
         tags=["C18"])
