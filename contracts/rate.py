"""aiortc.rate: AIMD rate control (C15: the estimate never exceeds 1.5 x the measured throughput + 10 kbit/s (or its own
previous value), is cut to at most 85 % of the measurement on over-use, stays a non-negative integer, and update()
never raises).  Floats are treated as mathematical reals (A-REAL)."""
from pyvc.contracts import contract, lemma, spec, harness, klass

M = "aiortc.rate"
klass(f"{M}:AimdRateControl",
      fields={"avg_max_bitrate_kbps": "opt[float]", "var_max_bitrate_kbps": "float", "current_bitrate": "int",
              "current_bitrate_initialized": "bool", "first_estimated_throughput_time": "opt[int]",
              "last_change_ms": "opt[int]", "near_max": "bool", "latest_estimated_throughput": "int", "rtt": "int",
              "state": "enum:RateControlState"},
      invariant=["self.current_bitrate >= 0", "self.latest_estimated_throughput >= 0", "self.rtt >= 0",
                 "0.4 <= self.var_max_bitrate_kbps <= 2.5",
                 "implies(self.avg_max_bitrate_kbps is not None, self.avg_max_bitrate_kbps >= 0)",
                 "implies(self.near_max, self.last_change_ms is not None)"])

contract(f"{M}:AimdRateControl._clamp_bitrate", params={"new_bitrate": "int", "estimated_throughput": "int"}, returns="int",
         requires=["estimated_throughput >= 0", "new_bitrate >= 0"],
         raises={},
         ensures=["result == min(new_bitrate, max((3 * estimated_throughput) // 2 + 10000, self.current_bitrate))",
                  "0 <= result <= new_bitrate"],
         modifies=[], tags=["C15"])

contract(f"{M}:AimdRateControl._near_max_rate_increase", returns="int",
         raises={}, ensures=["result >= 4000"], modifies=[], tags=["C15"])

contract(f"{M}:AimdRateControl._additive_rate_increase", params={"last_ms": "int", "now_ms": "int"}, returns="int",
         requires=["now_ms >= last_ms"], raises={}, ensures=["result >= 0"], modifies=[], tags=["C15"])

contract(f"{M}:AimdRateControl._multiplicative_rate_increase",
         params={"new_bitrate": "int", "last_ms": "opt[int]", "now_ms": "int"}, returns="int",
         requires=["new_bitrate >= 0", "implies(last_ms is not None, now_ms >= last_ms)"],
         raises={}, ensures=["result >= 1000"], modifies=[], tags=["C15"])

contract(f"{M}:AimdRateControl._update_max_throughput_estimate", params={"estimated_throughput_kbps": "float"},
         requires=["estimated_throughput_kbps >= 0"], raises={},
         ensures=["self.avg_max_bitrate_kbps is not None"],
         modifies=["self.avg_max_bitrate_kbps", "self.var_max_bitrate_kbps"], tags=["C15"])

contract(f"{M}:AimdRateControl.update",
         params={"bandwidth_usage": "enum:BandwidthUsage", "estimated_throughput": "opt[int]", "now_ms": "int"},
         returns="opt[int]",
         requires=["implies(estimated_throughput is not None, estimated_throughput >= 0)",
                   "implies(self.last_change_ms is not None, now_ms >= self.last_change_ms)"],
         raises={},
         ensures=[
             # a reported estimate is a non-negative integer, bounded by 1.5 x the throughput used + 10 kbit/s or by the
             # previous estimate
             "implies(result is not None, result == self.current_bitrate and result >= 0)",
             "implies(result is not None and estimated_throughput is not None, "
             "result <= max((3 * estimated_throughput) // 2 + 10000, old(self.current_bitrate), estimated_throughput))",
             "implies(result is not None and estimated_throughput is None, "
             "result <= max((3 * old(self.latest_estimated_throughput)) // 2 + 10000, old(self.current_bitrate)))",
             # detected over-use: cut to at most 85 % of the measured throughput (round half to even of 0.85 T)
             "implies(bandwidth_usage == BandwidthUsage.OVERUSING and estimated_throughput is not None, "
             "result is not None and 100 * result <= 85 * estimated_throughput + 50)",
         ],
         modifies=["self.avg_max_bitrate_kbps", "self.var_max_bitrate_kbps", "self.current_bitrate",
                   "self.current_bitrate_initialized", "self.first_estimated_throughput_time", "self.last_change_ms",
                   "self.near_max", "self.latest_estimated_throughput", "self.state"],
         tags=["C15"])
