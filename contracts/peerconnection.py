"""aiortc.rtcpeerconnection: JSEP validation (C14).  __validate_description is the single gate every
setLocalDescription / setRemoteDescription call passes before any signalling state or description slot is written.

State model: the four description slots and __signalingState (name-mangled: only code inside the class can write
them).  aiortc never enters the provisional-answer states, so the reachable signalling states are
stable / have-local-offer / have-remote-offer / closed, and a pending offer exists exactly in the matching state."""
from pyvc.contracts import contract, lemma, spec, harness, klass

M = "aiortc.rtcpeerconnection"
klass("aiortc.rtcicetransport:RTCIceParameters", fields={"usernameFragment": "opt[str]", "password": "opt[str]", "iceLite": "bool"})
klass("aiortc.rtcdtlstransport:RTCDtlsParameters", fields={"role": "str"})
klass("aiortc.rtcrtpparameters:RTCRtpParameters", fields={"muxId": "str"})
klass("aiortc.sdp:MediaDescription", fields={"kind": "str", "ice": "opt[RTCIceParameters]", "dtls": "opt[RTCDtlsParameters]",
                                             "rtcp_mux": "bool", "rtp": "RTCRtpParameters"})
klass("aiortc.sdp:SessionDescription", fields={"type": "opt[str]", "media": "list[MediaDescription]"})
klass(f"{M}:RTCPeerConnection",
      fields={"__signalingState": "str", "__isClosed": "opt[any]",
              "__pendingLocalDescription": "opt[SessionDescription]", "__currentLocalDescription": "opt[SessionDescription]",
              "__pendingRemoteDescription": "opt[SessionDescription]", "__currentRemoteDescription": "opt[SessionDescription]"},
      invariant=[
          "self.__signalingState == 'stable' or self.__signalingState == 'have-local-offer' or "
          "self.__signalingState == 'have-remote-offer' or self.__signalingState == 'closed'",
          "implies(self.__signalingState == 'have-local-offer', self.__pendingLocalDescription is not None)",
          "implies(self.__signalingState == 'have-remote-offer', self.__pendingRemoteDescription is not None)",
      ])

# the JSEP transition relation, as the property states it: is (side, type) legal in signalling state s ?
spec("jsep_legal", ["is_local", "typ", "s"],
     "ite(typ == 'offer', ite(is_local, s == 'stable' or s == 'have-local-offer', s == 'stable' or s == 'have-remote-offer'), "
     "ite(typ == 'answer' or typ == 'pranswer', ite(is_local, s == 'have-remote-offer' or s == 'have-local-pranswer', "
     "s == 'have-local-offer' or s == 'have-remote-pranswer'), True))")

contract(f"{M}:RTCPeerConnection.__validate_description",
         params={"description": "SessionDescription", "is_local": "bool"},
         requires=["description.type is not None",
                   "all_in(description.media, lambda m: m.ice is not None)"],
         raises={"InvalidStateError": "not jsep_legal(is_local, description.type, self.__signalingState)",
                 "ValueError": None},
         ensures=[
             # a description that passes is legal in the current state ...
             "jsep_legal(is_local, description.type, self.__signalingState)",
             # ... every section carries ICE credentials ...
             "all_in(description.media, lambda m: m.ice.usernameFragment is not None and len(m.ice.usernameFragment) > 0 and "
             "m.ice.password is not None and len(m.ice.password) > 0)",
             # ... an answer has a definite DTLS role in every section ...
             "implies(description.type == 'answer' or description.type == 'pranswer', all_in(description.media, "
             "lambda m: m.dtls is not None and (m.dtls.role == 'client' or m.dtls.role == 'server')))",
             # ... audio/video sections use rtcp-mux ...
             "all_in(description.media, lambda m: implies(m.kind == 'audio' or m.kind == 'video', m.rtcp_mux))",
             # ... and an answer mirrors the pending offer's media sections (count, order, kind, mid)
             "implies((description.type == 'answer' or description.type == 'pranswer') and is_local, "
             "len(description.media) == len(self.__pendingRemoteDescription.media) and "
             "forall(lambda j: description.media[j].kind == self.__pendingRemoteDescription.media[j].kind and "
             "description.media[j].rtp.muxId == self.__pendingRemoteDescription.media[j].rtp.muxId, 0, len(description.media)))",
             "implies((description.type == 'answer' or description.type == 'pranswer') and not is_local, "
             "len(description.media) == len(self.__pendingLocalDescription.media) and "
             "forall(lambda j: description.media[j].kind == self.__pendingLocalDescription.media[j].kind and "
             "description.media[j].rtp.muxId == self.__pendingLocalDescription.media[j].rtp.muxId, 0, len(description.media)))",
         ],
         loops={0: dict(kind="for", index="i",
                        invariant=["forall(lambda j: description.media[j].ice.usernameFragment is not None and "
                                   "len(description.media[j].ice.usernameFragment) > 0 and description.media[j].ice.password is not None "
                                   "and len(description.media[j].ice.password) > 0, 0, i)",
                                   "implies(description.type == 'answer' or description.type == 'pranswer', "
                                   "forall(lambda j: description.media[j].dtls is not None and (description.media[j].dtls.role == 'client' or "
                                   "description.media[j].dtls.role == 'server'), 0, i))",
                                   "forall(lambda j: implies(description.media[j].kind == 'audio' or description.media[j].kind == 'video', "
                                   "description.media[j].rtcp_mux), 0, i)"])},
         modifies=[], tags=["C14"])
