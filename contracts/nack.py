"""aiortc.rtcrtpreceiver: NackGenerator (C11: the set of sequence numbers to request; C17: serial arithmetic across the
16-bit wrap; C05: add() terminates and never raises for any packet).

Invariant: every tracked sequence number lies 1..128 positions behind max_seq in serial arithmetic.  The map
s -> (max_seq - s) % 65536 is then an injection of `missing` into {1, ..., 128}, hence a NACK never lists more than
the 128-packet retransmission history (the cardinality step is the pigeonhole principle; it is not mechanised here)."""
from pyvc.contracts import contract, lemma, spec, harness, klass

M = "aiortc.rtcrtpreceiver"
klass(f"{M}:NackGenerator", fields={"max_seq": "opt[int]", "missing": "set[int]"},
      invariant=[
          "implies(self.max_seq is None, forall(lambda s: not (s in self.missing), 0, 65536))",
          "implies(self.max_seq is not None, 0 <= self.max_seq < 65536)",
          "all_in(self.missing, lambda s: 0 <= s < 65536)",
          "forall(lambda s: implies(s in self.missing, self.max_seq is not None and 1 <= (self.max_seq - s) % 65536 <= 128), 0, 65536)",
      ])

contract(f"{M}:NackGenerator.__init__", ensures=["self.max_seq is None"], modifies=["self.max_seq", "self.missing"],
         tags=["C11"])

contract(f"{M}:NackGenerator.truncate",
         ensures=["self.max_seq == old(self.max_seq)",
                  "all_in(self.missing, lambda s: old(s in self.missing))",   # nothing is ever added
                  # exactly the numbers more than 128 behind max_seq (in serial order) are dropped
                  "forall(lambda s: (s in self.missing) == (old(s in self.missing) and "
                  "not sgt16((self.max_seq - 128) % 65536, s)), 0, 65536)"],
         invariants=False,
         requires=["implies(self.max_seq is not None, 0 <= self.max_seq < 65536)",
                   "implies(self.max_seq is None, forall(lambda s: not (s in self.missing), 0, 65536))",
                   "all_in(self.missing, lambda s: 0 <= s < 65536)"],
         loops={0: dict(kind="for", index="i",
                        invariant=["self.max_seq == old(self.max_seq)", "all_in(self.missing, lambda s: 0 <= s < 65536)",
                                   "all_in(self.missing, lambda s: old(s in self.missing))",
                                   "forall(lambda k: implies(sgt16(min_seq, loop_seq(0)[k]), not (loop_seq(0)[k] in self.missing)), 0, i)",
                                   "forall(lambda s: implies(old(s in self.missing) and not sgt16(min_seq, s), s in self.missing), 0, 65536)"],
                        modifies=["content(self.missing)"])},
         modifies=["content(self.missing)"], tags=["C11", "C17"])

contract(f"{M}:NackGenerator.add", params={"packet": "RtpPacket"}, returns="bool",
         requires=["0 <= packet.sequence_number < 65536"],
         raises={},
         ensures=[
             # highest sequence number seen, in serial order
             "self.max_seq == ite(old(self.max_seq) is None or sgt16(packet.sequence_number, old(self.max_seq)), "
             "packet.sequence_number, old(self.max_seq))",
             # a received packet is never requested
             "not (packet.sequence_number in self.missing)",
             # the set afterwards: what was missing before plus the numbers skipped by a forward jump, minus the packet
             # itself, restricted to the 128-packet history behind the new maximum
             "forall(lambda s: (s in self.missing) == (s != packet.sequence_number and 1 <= (self.max_seq - s) % 65536 <= 128 and "
             "(old(s in self.missing) or (old(self.max_seq) is not None and sgt16(packet.sequence_number, old(self.max_seq)) and "
             "1 <= (s - old(self.max_seq)) % 65536 < (packet.sequence_number - old(self.max_seq)) % 65536))), 0, 65536)",
             # the return value says whether the packet revealed a gap
             "result == (old(self.max_seq) is not None and sgt16(packet.sequence_number, old(self.max_seq)) and "
             "(packet.sequence_number - old(self.max_seq)) % 65536 >= 2)",
         ],
         loops={0: dict(kind="while",
                        invariant=["self.max_seq == old(self.max_seq)",
                                   "0 <= seq < 65536", "all_in(self.missing, lambda s: 0 <= s < 65536)",
                                   "1 <= (seq - self.max_seq) % 65536 <= (packet.sequence_number - self.max_seq) % 65536",
                                   "missed == ((seq - self.max_seq) % 65536 >= 2)",
                                   "forall(lambda s: (s in self.missing) == (old(s in self.missing) or "
                                   "1 <= (s - self.max_seq) % 65536 < (seq - self.max_seq) % 65536), 0, 65536)"],
                        decreases="(packet.sequence_number - seq) % 65536",
                        modifies=["content(self.missing)"])},
         modifies=["self.max_seq", "content(self.missing)"], tags=["C11", "C17", "C05"])
