"""aiortc.rtcsctptransport: chunk / parameter codecs (C05: ValueError-or-value and termination; C08: field layout)."""
from pyvc.contracts import contract, lemma, spec, harness, klass

M = "aiortc.rtcsctptransport"
T58 = ["C05", "C08"]

contract(f"{M}:padl", params={"length": "int"}, returns="int",
         ensures=["0 <= result < 4", "(length + result) % 4 == 0"],
         tags=["C08"], witness=[{"length": 5}])
contract(f"{M}:tsn_plus_one", params={"a": "int"}, returns="int",
         ensures=["result == (a + 1) % (1 << 32)"], tags=["C17"], witness=[{"a": (1 << 32) - 1}])
contract(f"{M}:tsn_minus_one", params={"a": "int"}, returns="int",
         ensures=["result == (a - 1) % (1 << 32)"], tags=["C17"], witness=[{"a": 0}])

# ------------------------------------------------------------------ parameter lists
contract(f"{M}:decode_params", params={"body": "bytes"}, returns="list[tuple[int,bytes]]",
         raises={"ValueError": None},
         ensures=["forall(lambda j: 0 <= result[j][0] < 65536 and len(result[j][1]) <= len(body), 0, len(result))",
                  "4 * len(result) <= len(body)",
                  # the first parameter is decoded exactly, and a body that holds a header holds a parameter (also the
                  # smallest one: four bytes, empty value)
                  "implies(len(body) < 4, len(result) == 0)",
                  "implies(len(body) >= 4, len(result) >= 1 and result[0][0] == u16(body, 0) and "
                  "result[0][1] == body[4:u16(body, 2)])"],
         locals={"params": "list[tuple[int,bytes]]"},
         loops={0: dict(kind="while",
                        invariant=["0 <= pos", "4 * len(params) <= pos", "4 * len(params) <= len(body)",
                                   "implies(pos == 0, len(params) == 0)",
                                   "implies(pos > 0, len(params) >= 1 and params[0][0] == u16(body, 0) and "
                                   "params[0][1] == body[4:u16(body, 2)])",
                                   "forall(lambda j: 0 <= params[j][0] < 65536 and len(params[j][1]) <= len(body), 0, len(params))"],
                        decreases="len(body) - pos")},
         tags=T58, witness=[{"body": bytes.fromhex("c0000004" "80080006" "c082" "0000")}])

contract(f"{M}:encode_params", params={"params": "list[tuple[int,bytes]]"}, returns="bytes",
         requires=["forall(lambda j: 0 <= params[j][0] < 65536 and len(params[j][1]) + 4 < 65536, 0, len(params))"],
         ensures=["implies(len(params) == 0, len(result) == 0)",
                  "implies(len(params) > 0, len(result) >= 4 * len(params))"],
         loops={0: dict(kind="for", index="i",
                        invariant=["len(body) >= 4 * i", "len(padding) < 4",
                                   "implies(i == 0, len(body) == 0 and len(padding) == 0)"])},
         tags=["C08"], witness=[{"params": [(0xC000, b""), (0x8008, b"\xc0\x82")]}])

# ------------------------------------------------------------------ chunks
klass(f"{M}:Chunk", fields={"flags": "int", "body": "bytes"})
klass(f"{M}:DataChunk", fields={"flags": "int", "tsn": "int", "stream_id": "int", "stream_seq": "int",
                                "protocol": "int", "user_data": "bytes",
                                # send-side bookkeeping attached by RTCSctpTransport._send
                                "_abandoned": "bool", "_acked": "bool"})
klass(f"{M}:SackChunk", fields={"flags": "int", "gaps": "list[tuple[int,int]]", "duplicates": "list[int]",
                                "cumulative_tsn": "int", "advertised_rwnd": "int"})
klass(f"{M}:ForwardTsnChunk", fields={"flags": "int", "streams": "list[tuple[int,int]]", "cumulative_tsn": "int"})
klass(f"{M}:ShutdownChunk", fields={"flags": "int", "cumulative_tsn": "int"})
klass(f"{M}:BaseInitChunk", fields={"flags": "int", "initiate_tag": "int", "advertised_rwnd": "int",
                                    "outbound_streams": "int", "inbound_streams": "int", "initial_tsn": "int",
                                    "params": "list[tuple[int,bytes]]"})
klass(f"{M}:BaseParamsChunk", fields={"flags": "int", "params": "list[tuple[int,bytes]]"})

contract(f"{M}:Chunk.__bytes__", returns="bytes",
         requires=["0 <= self.type < 256", "0 <= self.flags < 256", "len(self.body) + 4 < 65536"], invariants=False,
         ensures=["len(result) % 4 == 0", "len(result) >= 4 + len(self.body)", "len(result) < 8 + len(self.body)",
                  "result[1] == self.flags", "u16(result, 2) == len(self.body) + 4",
                  "result[4:4 + len(self.body)] == self.body"],
         tags=["C08"])

contract(f"{M}:DataChunk.__init__", params={"flags": "int", "body": "opt[bytes]"},
         raises={"ValueError": "body is not None and 0 < len(body) < 12"},
         ensures=["self.flags == flags",
                  "implies(body is not None and len(body) > 0, len(body) >= 12 and self.tsn == u32(body, 0) and "
                  "self.stream_id == u16(body, 4) and self.stream_seq == u16(body, 6) and self.protocol == u32(body, 8) "
                  "and self.user_data == body[12:])",
                  "implies(body is None or len(body) == 0, self.tsn == 0 and self.stream_id == 0 and "
                  "self.stream_seq == 0 and self.protocol == 0 and len(self.user_data) == 0)"],
         modifies=["self.flags", "self.tsn", "self.stream_id", "self.stream_seq", "self.protocol", "self.user_data"],
         tags=T58 + ["C01"], witness=[{"flags": 3, "body": bytes(range(16))}])

contract(f"{M}:DataChunk.__bytes__", returns="bytes",
         requires=["0 <= self.flags < 256", "0 <= self.tsn < (1 << 32)", "0 <= self.stream_id < 65536",
                   "0 <= self.stream_seq < 65536", "0 <= self.protocol < (1 << 32)", "len(self.user_data) + 16 < 65536"],
         ensures=["len(result) % 4 == 0", "len(result) >= 16 + len(self.user_data)",
                  "len(result) < 20 + len(self.user_data)",
                  "result[0] == 0", "result[1] == self.flags", "u16(result, 2) == 16 + len(self.user_data)",
                  "u32(result, 4) == self.tsn", "u16(result, 8) == self.stream_id", "u16(result, 10) == self.stream_seq",
                  "u32(result, 12) == self.protocol",
                  "result[16:16 + len(self.user_data)] == self.user_data"],
         tags=["C08", "C01"])

harness("roundtrip_data_chunk", M, """
def h(x):
    b = bytes(x)
    n = unpack_from("!BBH", b)[2]
    return DataChunk(flags=b[1], body=b[4:n])
""", params={"x": "DataChunk"}, returns="DataChunk",
        requires=["0 <= x.flags < 256", "0 <= x.tsn < (1 << 32)", "0 <= x.stream_id < 65536",
                  "0 <= x.stream_seq < 65536", "0 <= x.protocol < (1 << 32)", "len(x.user_data) + 16 < 65536"],
        ensures=["result.flags == x.flags and result.tsn == x.tsn and result.stream_id == x.stream_id and "
                 "result.stream_seq == x.stream_seq and result.protocol == x.protocol",
                 "result.user_data == x.user_data"],
        tags=["C08"])

contract(f"{M}:ShutdownChunk.__init__", params={"flags": "int", "body": "opt[bytes]"},
         raises={"ValueError": "body is not None and 0 < len(body) < 4"},
         ensures=["self.flags == flags",
                  "implies(body is not None and len(body) > 0, len(body) >= 4 and self.cumulative_tsn == u32(body, 0))",
                  "implies(body is None or len(body) == 0, self.cumulative_tsn == 0)"],
         modifies=["self.flags", "self.cumulative_tsn"],
         tags=T58, witness=[{"flags": 0, "body": b"\x00\x00\x00\x07"}])

contract(f"{M}:ForwardTsnChunk.__init__", params={"flags": "int", "body": "opt[bytes]"},
         raises={"ValueError": "body is not None and len(body) > 0 and (len(body) < 4 or len(body) % 4 != 0)"},
         ensures=["self.flags == flags",
                  "implies(body is not None and len(body) > 0, len(body) >= 4 and self.cumulative_tsn == u32(body, 0) "
                  "and 4 + 4 * len(self.streams) == len(body) and "
                  "forall(lambda j: self.streams[j][0] == u16(body, 4 + 4 * j) and self.streams[j][1] == u16(body, 6 + 4 * j), 0, len(self.streams)))",
                  "implies(body is None or len(body) == 0, self.cumulative_tsn == 0 and len(self.streams) == 0)"],
         loops={0: dict(kind="while",
                        invariant=["pos == 4 + 4 * len(self.streams)", "pos <= len(body)", "(len(body) - pos) % 4 == 0",
                                   "forall(lambda j: self.streams[j][0] == u16(body, 4 + 4 * j) and self.streams[j][1] == u16(body, 6 + 4 * j), 0, len(self.streams))"],
                        decreases="len(body) - pos", modifies=["content(self.streams)"])},
         modifies=["self.flags", "self.cumulative_tsn", "self.streams"],
         tags=T58 + ["C06"], witness=[{"flags": 0, "body": bytes.fromhex("00000064" "00010002")}])

contract(f"{M}:SackChunk.__init__", params={"flags": "int", "body": "opt[bytes]"},
         raises={"ValueError": "body is not None and len(body) > 0 and (len(body) < 12 or len(body) < 12 + 4 * (u16(body, 8) + u16(body, 10)))"},
         ensures=["self.flags == flags",
                  "implies(body is not None and len(body) > 0, len(body) >= 12 and self.cumulative_tsn == u32(body, 0) "
                  "and self.advertised_rwnd == u32(body, 4) and len(self.gaps) == u16(body, 8) and "
                  "len(self.duplicates) == u16(body, 10) and len(body) >= 12 + 4 * (len(self.gaps) + len(self.duplicates)) and "
                  "forall(lambda j: self.gaps[j][0] == u16(body, 12 + 4 * j) and self.gaps[j][1] == u16(body, 14 + 4 * j), 0, len(self.gaps)) and "
                  "forall(lambda j: self.duplicates[j] == u32(body, 12 + 4 * len(self.gaps) + 4 * j), 0, len(self.duplicates)))",
                  "implies(body is None or len(body) == 0, self.cumulative_tsn == 0 and self.advertised_rwnd == 0 and "
                  "len(self.gaps) == 0 and len(self.duplicates) == 0)"],
         loops={0: dict(kind="for", index="i",
                        invariant=["pos == 12 + 4 * i", "len(self.gaps) == i", "len(self.duplicates) == 0",
                                   "forall(lambda j: self.gaps[j][0] == u16(body, 12 + 4 * j) and self.gaps[j][1] == u16(body, 14 + 4 * j), 0, i)"],
                        modifies=["content(self.gaps)"]),
                1: dict(kind="for", index="i",
                        invariant=["pos == 12 + 4 * nb_gaps + 4 * i", "len(self.duplicates) == i", "len(self.gaps) == nb_gaps",
                                   "forall(lambda j: self.gaps[j][0] == u16(body, 12 + 4 * j) and self.gaps[j][1] == u16(body, 14 + 4 * j), 0, nb_gaps)",
                                   "forall(lambda j: self.duplicates[j] == u32(body, 12 + 4 * nb_gaps + 4 * j), 0, i)"],
                        modifies=["content(self.duplicates)"])},
         modifies=["self.flags", "self.cumulative_tsn", "self.advertised_rwnd", "self.gaps", "self.duplicates"],
         tags=T58 + ["C02"], witness=[{"flags": 0, "body": bytes.fromhex("00000064" "00020000" "0001" "0001" "00020003" "00000060")}])

contract(f"{M}:BaseInitChunk.__init__", params={"flags": "int", "body": "opt[bytes]"},
         raises={"ValueError": None},
         ensures=["self.flags == flags",
                  "implies(body is not None and len(body) > 0, len(body) >= 16 and self.initiate_tag == u32(body, 0) and "
                  "self.advertised_rwnd == u32(body, 4) and self.outbound_streams == u16(body, 8) and "
                  "self.inbound_streams == u16(body, 10) and self.initial_tsn == u32(body, 12))"],
         modifies=["self.flags", "self.initiate_tag", "self.advertised_rwnd", "self.outbound_streams",
                   "self.inbound_streams", "self.initial_tsn", "self.params"],
         tags=T58, witness=[{"flags": 0, "body": bytes(range(16)) + bytes.fromhex("c0000004")}])

contract(f"{M}:BaseParamsChunk.__init__", params={"flags": "int", "body": "opt[bytes]"},
         raises={"ValueError": None},
         ensures=["self.flags == flags"],
         modifies=["self.flags", "self.params"],
         tags=T58, witness=[{"flags": 0, "body": bytes.fromhex("c0000004")}])

# ------------------------------------------------------------------ RFC 6525 parameters
contract(f"{M}:StreamAddOutgoingParam.parse", params={"data": "bytes"}, returns="StreamAddOutgoingParam",
         raises={"ValueError": "len(data) < 8"},
         ensures=["len(data) >= 8", "result.request_sequence == u32(data, 0)", "result.new_streams == u16(data, 4)"],
         fresh_result=True, tags=T58, witness=[{"data": bytes(range(8))}])
contract(f"{M}:StreamResetResponseParam.parse", params={"data": "bytes"}, returns="StreamResetResponseParam",
         raises={"ValueError": "len(data) < 8"},
         ensures=["len(data) >= 8", "result.response_sequence == u32(data, 0)", "result.result == u32(data, 4)"],
         fresh_result=True, tags=T58, witness=[{"data": bytes(range(8))}])
contract(f"{M}:StreamResetOutgoingParam.parse", params={"data": "bytes"}, returns="StreamResetOutgoingParam",
         raises={"ValueError": "len(data) < 12 or len(data) % 2 != 0"},
         ensures=["len(data) >= 12", "result.request_sequence == u32(data, 0)", "result.response_sequence == u32(data, 4)",
                  "result.last_tsn == u32(data, 8)", "2 * len(result.streams) == len(data) - 12",
                  "forall(lambda j: result.streams[j] == u16(data, 12 + 2 * j), 0, len(result.streams))"],
         locals={"streams": "list[int]"},
         loops={0: dict(kind="for", index="pos",
                        invariant=["2 * len(streams) == pos - 12",
                                   "forall(lambda j: streams[j] == u16(data, 12 + 2 * j), 0, len(streams))"])},
         fresh_result=True, tags=T58, witness=[{"data": bytes(range(16))}])

# ------------------------------------------------------------------ whole packets
contract(f"{M}:Chunk.__init__", params={"flags": "int", "body": "bytes"},
         raises={},
         ensures=["self.flags == flags", "self.body == body"],
         modifies=["self.flags", "self.body"], tags=T58)

contract(f"{M}:parse_packet", params={"data": "bytes"}, returns="tuple[int,int,int,list[Chunk]]",
         raises={"ValueError": None},
         ensures=[
             "len(data) >= 16",
             "result[0] == u16(data, 0) and result[1] == u16(data, 2) and result[2] == u32(data, 4)",
             # no chunk is handed on unless the CRC-32c over the packet with a zeroed checksum field matches
             "u32le(data, 8) == crc32c(data[0:8] + b'\\x00\\x00\\x00\\x00' + data[12:])",
             "4 * len(result[3]) <= len(data) - 9",     # at most one chunk object per 4 bytes of datagram
         ],
         locals={"chunks": "list[Chunk]"},
         loops={0: dict(kind="while",
                        invariant=["12 <= pos <= length + 3", "length == len(data)", "fresh(chunks)",
                                   "4 * len(chunks) <= pos - 12"],
                        decreases="length + 3 - pos", modifies=["content(chunks)"])},
         tags=T58,
         # a well-formed COOKIE-ACK packet with its correct checksum, and the same packet with the checksum field zeroed
         # (must be rejected: RFC 9653 zero checksums are not negotiated by aiortc)
         witness=[{"data": bytes.fromhex("138813891122334412f57b750b000004")},
                  {"data": bytes.fromhex("1388138911223344000000000b000004")}])
