"""aiortc.rtcdtlstransport: the part of C04 this repository owns - the fingerprint policy applied to the peer certificate
after the handshake (_validate_peer_identity) and the slicing of the exported keying material per role
(SRTPProtectionProfile.get_key_and_salt).  The handshake, the certificate digest and SRTP itself are external C code."""
from pyvc.contracts import contract, lemma, spec, harness, klass, runtime_fn

M = "aiortc.rtcdtlstransport"
klass(f"{M}:RTCDtlsTransport", fields={"_state": "State", "_ssl": "any"}, ghost_fields={"emitted": "list[str]"})
klass(f"{M}:RTCDtlsFingerprint", fields={"algorithm": "str", "value": "str"})
klass(f"{M}:RTCDtlsParameters", fields={"fingerprints": "list[RTCDtlsFingerprint]", "role": "str"})
klass(f"{M}:SRTPProtectionProfile", fields={"libsrtp_profile": "int", "openssl_profile": "bytes", "key_length": "int",
                                           "salt_length": "int"})


def _digest(certificate, algorithm):
    """run-time reading for replays: rebuilt transports have no real certificate; any fixed function of (certificate,
    algorithm) is a model of the assumed contract"""
    return "AB:" + str(algorithm).upper().replace("-", ":")


runtime_fn("digest", _digest)
runtime_fn("get_peer_certificate", lambda ssl: ssl.get_peer_certificate(as_cryptography=True))

# Assumed: the digest of a certificate is a function of the certificate and the (supported) algorithm name; computing it
# (cryptography / OpenSSL) raises nothing for a supported algorithm.
contract(f"{M}:certificate_digest", params={"certificate": "any", "algorithm": "str"}, returns="str",
         requires=["algorithm == 'sha-256' or algorithm == 'sha-384' or algorithm == 'sha-512'"],
         raises={}, ensures=["result == uf_str('digest', certificate, algorithm)"],
         trusted=True, tags=["C04"],
         note="assumed: certificate_digest is a function of (certificate, algorithm) computed by the cryptography library")

contract(f"{M}:RTCDtlsTransport._set_state", params={"state": "State"}, raises={},
         ensures=["self._state == state",
                  "implies(state == old(self._state), len(self.emitted) == old(len(self.emitted)))"],
         at_emit=["self._state == state"],
         modifies=["self._state", "content(self.emitted)"], opaque_calls=["__log_debug"], tags=["C04"])

SUP = "({0}.algorithm.lower() == 'sha-256' or {0}.algorithm.lower() == 'sha-384' or {0}.algorithm.lower() == 'sha-512')"
FP = "remoteParameters.fingerprints[{0}]"
CERT = "uf_any('get_peer_certificate', self._ssl)"
MATCH = "({0}.value.upper() == uf_str('digest', " + CERT + ", {0}.algorithm.lower()))"
ALL_MATCH = f"forall(lambda i: implies({SUP.format(FP.format('i'))}, {MATCH.format(FP.format('i'))}), 0, {{N}})"
ANY_SUP = f"exists(lambda i: {SUP.format(FP.format('i'))}, 0, {{N}})"
NFP = "len(remoteParameters.fingerprints)"
contract(f"{M}:RTCDtlsTransport._validate_peer_identity", params={"remoteParameters": "RTCDtlsParameters"},
         raises={},
         ensures=[
             # accepted (state untouched) exactly when at least one fingerprint uses a supported hash and every fingerprint
             # with a supported hash equals the digest of the peer's certificate, compared case-insensitively
             f"implies({ANY_SUP.format(N=NFP)} and {ALL_MATCH.format(N=NFP)}, self._state == old(self._state))",
             f"implies(not ({ANY_SUP.format(N=NFP)} and {ALL_MATCH.format(N=NFP)}), self._state == State.FAILED)",
         ],
         loops={0: dict(kind="for", index="k", invariant=[
             "0 <= fingerprint_valid <= fingerprint_supported <= k", "wit(k)", "wit(k - 1)",
             f"(fingerprint_valid == fingerprint_supported) == {ALL_MATCH.format(N='k')}",
             f"(fingerprint_supported > 0) == {ANY_SUP.format(N='k')}",
             f"same(certificate, {CERT})", "self._state == old(self._state)"])},
         locals={"certificate": "any"}, pure_opaque=["get_peer_certificate"],
         modifies=["self._state", "content(self.emitted)"], opaque_calls=["__log_debug"],
         tags=["C04"])

# keying material: client write key | server write key | client write salt | server write salt (RFC 5764 section 4.2)
contract(f"{M}:SRTPProtectionProfile.get_key_and_salt", params={"src": "bytes", "idx": "int"}, returns="bytes",
         requires=["0 <= idx <= 1", "self.key_length >= 0 and self.salt_length >= 0",
                   "len(src) >= 2 * self.key_length + 2 * self.salt_length"],
         raises={},
         ensures=["len(result) == self.key_length + self.salt_length",
                  "result[0:self.key_length] == src[idx * self.key_length:(idx + 1) * self.key_length]",
                  "result[self.key_length:] == src[2 * self.key_length + idx * self.salt_length:"
                  "2 * self.key_length + (idx + 1) * self.salt_length]"],
         witness=[{"self": {"$class": "SRTPProtectionProfile", "libsrtp_profile": 1, "openssl_profile": b"SRTP_AES128_CM_SHA1_80",
                            "key_length": 16, "salt_length": 14}, "src": bytes(range(60)), "idx": 1},
                  {"self": {"$class": "SRTPProtectionProfile", "libsrtp_profile": 1, "openssl_profile": b"x",
                            "key_length": 2, "salt_length": 1}, "src": bytes(range(6)), "idx": 0}],
         tags=["C04"])
