"""aiortc.rtcsctptransport: partial reliability, sender side (C06): deciding that a message is abandoned marks exactly the
chunks of that message - back to its first fragment and forward to its last - and no chunk of a neighbouring message
(RFC 3758 section 3.5, A1)."""
from pyvc.contracts import contract, lemma, spec, harness, klass

M = "aiortc.rtcsctptransport"
klass(f"{M}:DataChunk", fields={"_max_retransmits": "opt[int]", "_sent_count": "int", "_expiry": "opt[float]",
                                "_retransmit": "bool"})

spec("is_first", ["c"], "(c.flags // 2) % 2 == 1")     # SCTP_DATA_FIRST_FRAG = 0x02
spec("is_last", ["c"], "c.flags % 2 == 1")             # SCTP_DATA_LAST_FRAG = 0x01
SQ = "self._sent_queue"
UNCH = "({0}._abandoned == old({0}._abandoned) and {0}._retransmit == old({0}._retransmit))"
MARK = "({0}._abandoned and not {0}._retransmit)"
Qk, Qm = f"{SQ}[k]", f"{SQ}[m]"
# with P the position of `chunk` in the sent queue:
BACK_MARKED = (f"forall(lambda k: implies(forall(lambda m: not is_first({Qm}), k + 1, {{P}} + 1), {MARK.format(Qk)}), 0, {{P}} + 1)")
BACK_KEPT = (f"forall(lambda k, m: implies(k < m and is_first({Qm}), {UNCH.format(Qk)}), 0, {{P}} + 1, 0, {{P}} + 1)")
FWD_MARKED = (f"forall(lambda k: implies(forall(lambda m: not is_last({Qm}), {{P}}, k), {MARK.format(Qk)}), {{P}}, {{N}})")
FWD_KEPT = (f"forall(lambda m, k: implies(m < k and is_last({Qm}), {UNCH.format(Qk)}), {{P}}, {{N}}, {{P}}, {{N}})")
NOCHANGE = f"forall(lambda k: {UNCH.format(Qk)}, 0, len({SQ}))"
NEW = "(result and not old(chunk._abandoned))"
ATP = f"forall(lambda p: implies(same({SQ}[p], chunk), {{body}}), 0, len({SQ}))"

contract(f"{M}:RTCSctpTransport._maybe_abandon", params={"chunk": "DataChunk"}, returns="bool",
         requires=[f"exists(lambda p: same({SQ}[p], chunk), 0, len({SQ}))",
                   # the sent queue holds each chunk once
                   f"forall(lambda i, j: implies(i < j, not same({SQ}[i], {SQ}[j])), 0, len({SQ}), 0, len({SQ}))",
                   f"all_in({SQ}, lambda c: 0 <= c.flags < 256)"],
         raises={},
         ensures=[
             # already abandoned: yes, and nothing is touched; not (yet) to be abandoned: no, and nothing is touched
             f"implies(old(chunk._abandoned), result and {NOCHANGE})",
             f"implies(not result, {NOCHANGE})",
             # the retransmission limit decides by itself; without limit and lifetime a chunk is never abandoned
             "implies(not old(chunk._abandoned) and chunk._max_retransmits is not None and "
             "chunk._sent_count > chunk._max_retransmits, result)",
             "implies(not old(chunk._abandoned) and not (chunk._max_retransmits is not None and "
             "chunk._sent_count > chunk._max_retransmits) and chunk._expiry is None, not result)",
             # newly abandoned: the whole message and only the message
             f"implies({NEW}, " + ATP.format(body=BACK_MARKED.format(P="p")) + ")",
             f"implies({NEW}, " + ATP.format(body=BACK_KEPT.format(P="p")) + ")",
             f"implies({NEW}, " + ATP.format(body=FWD_MARKED.format(P="p", N=f"len({SQ})")) + ")",
             f"implies({NEW}, " + ATP.format(body=FWD_KEPT.format(P="p", N=f"len({SQ})")) + ")",
         ],
         loops={
             0: dict(kind="for", invariant=[
                 f"0 <= chunk_pos < len({SQ}) and same({SQ}[chunk_pos], chunk) and -1 <= pos <= chunk_pos",
                 f"forall(lambda k: {MARK.format(Qk)}, pos + 1, chunk_pos + 1)",
                 f"forall(lambda m: not is_first({Qm}), pos + 1, chunk_pos + 1)",
                 f"forall(lambda k: {UNCH.format(Qk)}, 0, pos + 1)",
                 f"forall(lambda k: {UNCH.format(Qk)}, chunk_pos + 1, len({SQ}))"]),
             1: dict(kind="for", invariant=[
                 f"0 <= chunk_pos < len({SQ}) and same({SQ}[chunk_pos], chunk) and chunk_pos <= pos <= len({SQ})",
                 BACK_MARKED.format(P="chunk_pos"), BACK_KEPT.format(P="chunk_pos"),
                 f"forall(lambda k: {MARK.format(Qk)}, chunk_pos, pos)",
                 f"forall(lambda m: not is_last({Qm}), chunk_pos, pos)",
                 f"forall(lambda k: {UNCH.format(Qk)}, pos, len({SQ}))" if False else
                 f"forall(lambda k: {UNCH.format(Qk)}, ite(pos > chunk_pos, pos, chunk_pos + 1), len({SQ}))"]),
         },
         locals={"ochunk": "DataChunk"},
         modifies=["*DataChunk._abandoned", "*DataChunk._retransmit"],
         tags=["C06"])
