"""aiortc.rtcsctptransport: InboundStream (C01/C06: reassembly queue; C17: serial comparison of TSNs and stream sequence
numbers across the wrap; C02: ordered hold-back).

What is under contract: where add_chunk inserts, what prune_chunks removes, and -- for pop_messages -- the behaviour
at the head of the queue: an ordered message is held back exactly when its stream sequence number is *serially* ahead
of the expected one (no 'away from the wrap' precondition), a head chunk that is not a first fragment blocks an ordered
stream, and a complete single-fragment message at the head that is due is delivered first with exactly its
stream id, protocol and payload.  The general statement about every yielded run is not under contract."""
from pyvc.contracts import contract, lemma, spec, harness, klass

M = "aiortc.rtcsctptransport"
CHUNK_OK = "0 <= {0}.tsn < (1 << 32) and 0 <= {0}.stream_seq < 65536 and 0 <= {0}.flags < 256"
klass(f"{M}:InboundStream", fields={"reassembly": "list[DataChunk]", "sequence_number": "int"},
      invariant=["0 <= self.sequence_number < 65536",
                 "all_in(self.reassembly, lambda c: " + CHUNK_OK.format("c") + ")"])

spec("sgt32", ["a", "b"], "a != b and (a - b) % (1 << 32) < (1 << 31)")
spec("sgte32", ["a", "b"], "(a - b) % (1 << 32) < (1 << 31)")

contract(f"{M}:InboundStream.__init__", ensures=["len(self.reassembly) == 0", "self.sequence_number == 0"],
         modifies=["self.reassembly", "self.sequence_number"], tags=["C01"])

contract(f"{M}:InboundStream.add_chunk", params={"chunk": "DataChunk"},
         requires=[CHUNK_OK.format("chunk"),
                   # the caller (_receive_data_chunk via _mark_received) has eliminated duplicates
                   "all_in(self.reassembly, lambda c: c.tsn != chunk.tsn)",
                   # live TSNs lie within half the number space of each other (serial order is total on them)
                   "all_in(self.reassembly, lambda c: (c.tsn - chunk.tsn) % (1 << 32) != (1 << 31))"],
         raises={},
         ensures=["len(self.reassembly) == old(len(self.reassembly)) + 1", "wit(old(len(self.reassembly)))",
                  # the chunk is inserted at some position i between a predecessor that is not serially later and a successor
                  # that is serially later (sorted insertion into a sorted queue); nothing else moves
                  "exists(lambda i: same(self.reassembly[i], chunk) and "
                  "forall(lambda j: same(self.reassembly[j], old(self.reassembly[j])), 0, i) and "
                  "forall(lambda j: same(self.reassembly[j + 1], old(self.reassembly[j])), i, old(len(self.reassembly))) and "
                  "(i == 0 or not sgt32(self.reassembly[i - 1].tsn, chunk.tsn)) and "
                  "(i == old(len(self.reassembly)) or sgt32(self.reassembly[i + 1].tsn, chunk.tsn)), "
                  "0, old(len(self.reassembly)) + 1)",
                  "self.sequence_number == old(self.sequence_number)"],
         loops={0: dict(kind="for", index="i",
                        invariant=["wit(i)", "len(self.reassembly) == old(len(self.reassembly))",
                                   "forall(lambda j: same(self.reassembly[j], old(self.reassembly[j])), 0, len(self.reassembly))",
                                   "forall(lambda j: not sgt32(self.reassembly[j].tsn, chunk.tsn), 0, i)"],
                        modifies=["content(self.reassembly)"])},
         modifies=["content(self.reassembly)"], tags=["C01", "C17"])

contract(f"{M}:InboundStream.prune_chunks", params={"tsn": "int"}, returns="int",
         requires=["0 <= tsn < (1 << 32)"],
         raises={},
         ensures=["result >= 0", "wit(old(len(self.reassembly)) - len(self.reassembly))",
                  # exactly the maximal prefix of chunks serially at or before `tsn` is removed
                  "exists(lambda n: len(self.reassembly) == old(len(self.reassembly)) - n and "
                  "forall(lambda j: sgte32(tsn, old(self.reassembly[j].tsn)), 0, n) and "
                  "forall(lambda j: same(self.reassembly[j], old(self.reassembly[j + n])), 0, len(self.reassembly)) and "
                  "(n == old(len(self.reassembly)) or not sgte32(tsn, old(self.reassembly[n].tsn))), "
                  "0, old(len(self.reassembly)) + 1)",
                  "self.sequence_number == old(self.sequence_number)"],
         loops={0: dict(kind="for", index="i",
                        invariant=["pos == i - 1", "size >= 0",
                                   "forall(lambda j: sgte32(tsn, self.reassembly[j].tsn), 0, i)"])},
         modifies=["self.reassembly"], tags=["C06", "C17"])

# head of the queue at entry, and the three flag bits of a DATA chunk
H = "old(self.reassembly[0])"
ORD = f"(({H}.flags // 4) % 2 == 0)"
BEG = f"(({H}.flags // 2) % 2 == 1)"
END = f"({H}.flags % 2 == 1)"
NONEMPTY = "old(len(self.reassembly)) > 0"
UNCHANGED = ("len(result) == 0 and self.sequence_number == old(self.sequence_number) and "
             "len(self.reassembly) == old(len(self.reassembly)) and "
             "forall(lambda j: same(self.reassembly[j], old(self.reassembly[j])), 0, len(self.reassembly))")
HOLD = f"({NONEMPTY} and {ORD} and {BEG} and sgt16({H}.stream_seq, old(self.sequence_number)))"
NOTFIRST = f"({NONEMPTY} and {ORD} and not {BEG})"
DUE = f"({NONEMPTY} and {ORD} and {BEG} and {END} and not sgt16({H}.stream_seq, old(self.sequence_number)))"
FIRSTMSG = f"(len({{Y}}) >= 1 and {{Y}}[0][0] == {H}.stream_id and {{Y}}[0][1] == {H}.protocol and {{Y}}[0][2] == {H}.user_data)"
AT_START = ("(pos == 0 and start_pos is None and len(yielded()) == 0 and self.sequence_number == old(self.sequence_number) and "
            "len(self.reassembly) == old(len(self.reassembly)) and "
            "forall(lambda j: same(self.reassembly[j], old(self.reassembly[j])), 0, len(self.reassembly)))")

contract(f"{M}:InboundStream.pop_messages", returns="list[tuple[int,int,bytes]]",
         raises={},
         ensures=[
             # an empty queue yields nothing
             f"implies(not {NONEMPTY}, {UNCHANGED})",
             # ordered delivery: a message whose stream sequence number is serially ahead of the expected one is held back
             # (and everything behind it), for every pair of 16-bit values -- also across the wrap
             f"implies({HOLD}, {UNCHANGED})",
             # an ordered stream whose head is not a first fragment delivers nothing
             f"implies({NOTFIRST}, {UNCHANGED})",
             # a complete single-fragment message at the head that is due is delivered first, with its own stream id,
             # protocol and payload
             f"implies({DUE}, " + FIRSTMSG.format(Y="result") + ")",
         ],
         locals={"start_pos": "opt[int]", "expected_tsn": "int", "ordered": "bool", "chunk": "DataChunk", "user_data": "bytes"},
         loops={0: dict(kind="while",
                        invariant=[
                            "0 <= pos", "implies(start_pos is not None, 0 <= start_pos <= pos)",
                            "0 <= self.sequence_number < 65536",
                            "all_in(self.reassembly, lambda c: " + CHUNK_OK.format("c") + ")",
                            f"implies(not {NONEMPTY} or {HOLD} or {NOTFIRST}, {AT_START})",
                            f"implies({DUE}, {AT_START} or " + FIRSTMSG.format(Y="yielded()") + ")",
                        ],
                        decreases="2 * len(self.reassembly) - pos",
                        modifies=["self.reassembly", "self.sequence_number"])},
         modifies=["self.reassembly", "self.sequence_number"], tags=["C01", "C17", "C02"])
