"""aiortc.codecs.h264: FU-A fragmentation and the payload descriptor parser (C16: payload size limit, exactly one start
and one end marker, original NAL header bits, fragments are consecutive slices of the NAL unit; C05: parser raises only
ValueError and terminates)."""
from pyvc.contracts import contract, lemma, spec, harness, klass

M = "aiortc.codecs.h264"

# start offset (in the NAL unit) of fragment j when the payload of P bytes is cut into n packets:
# the first P % n fragments carry one byte more
spec("fu_start", ["P", "n", "j"], "1 + j * (P // n) + ite(j < P % n, j, P % n)")

contract(f"{M}:H264Encoder._packetize_fu_a", params={"data": "bytes"}, returns="list[bytes]",
         requires=["len(data) > 1300"],
         raises={},
         ensures=[
             "len(result) == (len(data) - 1 + 1297) // 1298",
             # payload size limit (PACKET_MAX = 1300) and no empty fragment
             "forall(lambda j: 3 <= len(result[j]) <= 1300, 0, len(result))",
             # FU indicator: F and NRI bits of the original NAL header, type 28; FU header: original NAL type
             "forall(lambda j: result[j][0] == (data[0] // 32) * 32 + 28 and result[j][1] % 32 == data[0] % 32 and "
             "(result[j][1] // 32) % 2 == 0, 0, len(result))",
             # exactly one start marker (first fragment) and one end marker (last fragment)
             "forall(lambda j: (result[j][1] >= 128) == (j == 0), 0, len(result))",
             "forall(lambda j: ((result[j][1] // 64) % 2 == 1) == (j == len(result) - 1), 0, len(result))",
             # the fragments are consecutive slices of the NAL unit's payload, in order, covering all of it
             "forall(lambda j: result[j][2:] == data[fu_start(len(data) - 1, len(result), j):fu_start(len(data) - 1, len(result), j + 1)], "
             "0, len(result))",
             "fu_start(len(data) - 1, len(result), len(result)) == len(data)",
         ],
         locals={"packages": "list[bytes]"},
         loops={0: dict(kind="while",
                        ghost_before=["r = num_packets"], ghost_end=["r = r - 1"],
                        invariant=[
                            "num_packets == (len(data) - 1 + 1297) // 1298 and num_packets >= 2",
                            "package_size == (len(data) - 1) // num_packets and 1 <= package_size <= 1298",
                            "implies((len(data) - 1) % num_packets > 0, package_size <= 1297)",
                            "r == num_packets - len(packages) and r >= 0",
                            "0 <= num_larger_packets <= r",
                            "num_larger_packets == ite(len(packages) < (len(data) - 1) % num_packets, "
                            "(len(data) - 1) % num_packets - len(packages), 0)",
                            "len(data) - offset == r * package_size + num_larger_packets",
                            "offset == fu_start(len(data) - 1, num_packets, len(packages))",
                            "1 <= offset <= len(data)",
                            "(offset == len(data)) == (r == 0)",      # all bytes are consumed exactly when no packet is left
                            "len(fu_header) == 2 and fu_header[0] == (data[0] // 32) * 32 + 28 and fu_header[1] % 64 == data[0] % 32",
                            "(fu_header[1] >= 128) == (len(packages) == 0) and (fu_header[1] // 64) % 2 == 0 and fu_header[1] < 256",
                            "len(fu_header_end) == 2 and fu_header_end[0] == (data[0] // 32) * 32 + 28 and fu_header_end[1] == data[0] % 32 + 64",
                            "len(fu_header_middle) == 2 and fu_header_middle[0] == (data[0] // 32) * 32 + 28 and fu_header_middle[1] == data[0] % 32",
                            "forall(lambda j: 3 <= len(packages[j]) <= 1300, 0, len(packages))",
                            "forall(lambda j: packages[j][0] == (data[0] // 32) * 32 + 28, 0, len(packages))",
                            "forall(lambda j: packages[j][1] % 32 == data[0] % 32, 0, len(packages))",
                            "forall(lambda j: (packages[j][1] // 32) % 2 == 0, 0, len(packages))",
                            "forall(lambda j: (packages[j][1] >= 128) == (j == 0), 0, len(packages))",
                            "forall(lambda j: ((packages[j][1] // 64) % 2 == 1) == (j == num_packets - 1), 0, len(packages))",
                            "forall(lambda j: packages[j][2:] == data[fu_start(len(data) - 1, num_packets, j):fu_start(len(data) - 1, num_packets, j + 1)], "
                            "0, len(packages))",
                        ],
                        decreases="len(data) - offset",
                        modifies=["content(packages)"])},
         tags=["C16"])

klass(f"{M}:H264PayloadDescriptor", fields={"first_fragment": "bool"})

contract(f"{M}:H264PayloadDescriptor.parse", params={"data": "bytes"}, returns="tuple[H264PayloadDescriptor,bytes]",
         # '?': necessary condition -- single NAL and FU-A packets of at least two bytes are never rejected
         raises={"ValueError": "?len(data) < 2 or data[0] % 32 == 24 or not (1 <= data[0] % 32 <= 23 or data[0] % 32 == 28)"},
         ensures=[
             "len(data) >= 2",
             # single NAL unit packet (types 1..23): start code + the NAL unit verbatim
             "implies(1 <= data[0] % 32 <= 23, result[0].first_fragment and result[1] == b'\\x00\\x00\\x00\\x01' + data)",
             # FU-A: the first fragment restores the start code and the original NAL header (F/NRI of the indicator,
             # type of the FU header); every fragment contributes its payload verbatim
             "implies(data[0] % 32 == 28, result[0].first_fragment == (data[1] >= 128))",
             "implies(data[0] % 32 == 28 and data[1] >= 128, len(result[1]) == len(data) + 3 and result[1][0:4] == b'\\x00\\x00\\x00\\x01' and "
             "result[1][4] == (data[0] // 32) * 32 + data[1] % 32 and result[1][5:] == data[2:])",
             "implies(data[0] % 32 == 28 and data[1] < 128, result[1] == data[2:])",
             # nothing else is accepted
             "1 <= data[0] % 32 <= 24 or data[0] % 32 == 28",
         ],
         locals={"offsets": "list[int]"},
         loops={0: dict(kind="while",
                        invariant=["1 <= pos <= len(data)",
                                   "forall(lambda j: 3 <= offsets[j] <= len(data), 0, len(offsets))"],
                        decreases="len(data) - pos", modifies=["content(offsets)"]),
                1: dict(kind="for", index="i", invariant=["len(output) >= 0"])},
         fresh_result=True, tags=["C16", "C05"],
         witness=[{"data": bytes([0x65, 1, 2, 3])}, {"data": bytes([0x7C, 0x85, 9, 9])}])

# itertools recipe (tee / next / zip): outside the engine's subset.  Assumed contract, listed as trusted in the evidence.
contract(f"{M}:pairwise", params={"iterable": "list[int]"}, returns="seq[tuple[int,int]]",
         ensures=["len(result) == ite(len(iterable) >= 1, len(iterable) - 1, 0)",
                  "forall(lambda k: result[k][0] == iterable[k] and result[k][1] == iterable[k + 1], 0, len(result))"],
         trusted=True, tags=["C16"],
         note="pairwise(s) yields (s[0], s[1]), (s[1], s[2]), ...: the documented itertools recipe")

# fragment j of a fragmented NAL unit depayloads to: (start code + original NAL header +) its slice of the payload
harness("fu_a_fragment_roundtrip", M, """
def h(data, j):
    pk = H264Encoder._packetize_fu_a(data)
    d, out = H264PayloadDescriptor.parse(pk[j])
    return (d.first_fragment, out, len(pk))
""", params={"data": "bytes", "j": "int"}, returns="tuple[bool,bytes,int]",
        requires=["len(data) > 1300", "0 <= j < (len(data) - 1 + 1297) // 1298"],
        raises={},
        ensures=["result[0] == (j == 0)",
                 "implies(j == 0, len(result[1]) == 5 + fu_start(len(data) - 1, result[2], 1) - 1 and "
                 "result[1][0:4] == b'\\x00\\x00\\x00\\x01' and result[1][4] == data[0] and "
                 "result[1][5:] == data[1:fu_start(len(data) - 1, result[2], 1)])",
                 "implies(j > 0, result[1] == data[fu_start(len(data) - 1, result[2], j):fu_start(len(data) - 1, result[2], j + 1)])"],
        tags=["C16"])
