"""./check <PROPERTY> --tier quick|thorough     decide one property
   ./check --replay <file>                      re-run one replay file on the real code
   ./check --unit <name> [-v]                   developer: one unit

Exit codes: 0 held (known findings printed) / 1 VIOLATION / 2 UNDECIDED / 3 checker defect.
"""
from __future__ import annotations

import argparse
import hashlib
import json
import multiprocessing as mp
import os
import re
import subprocess
import sys
import time
import traceback

ROOT = os.path.dirname(os.path.dirname(os.path.abspath(__file__)))
sys.path.insert(0, ROOT)

CONTRACTS = os.path.join(ROOT, "contracts")
EVIDENCE = os.environ.get("PYVC_EVIDENCE") or os.path.join(ROOT, "evidence")   # override: developer runs on scratch copies only
REPLAY_DIR = os.path.join(EVIDENCE, "replay")
VENV_PY = "/venv/bin/python"
PROPS = os.path.join(ROOT, "properties.py")


def _split_unit(u):
    from pyvc.contracts import split_unit
    return split_unit(u)


def slug(text: str) -> str:
    h = hashlib.sha256(text.encode()).hexdigest()[:10]
    s = re.sub(r"[^A-Za-z0-9_.-]+", "_", text)[:80]
    return f"{s}-{h}"


# ------------------------------------------------------------------------------- worker
def verify_unit(job):
    """Runs in a worker process: generate and discharge the VCs of one unit."""
    name, known_regions, want_cex = job
    import z3
    from pyvc.frontend import Repo
    from pyvc.contracts import load_sidecars
    from pyvc.engine import Exec
    from pyvc.stmt import StaleContract
    from pyvc.values import Unsupported
    from pyvc import solve, cex
    out = {"unit": name, "status": "ok", "obligations": [], "assumptions": [], "used_contracts": [],
           "gen_s": 0.0, "solve_s": 0.0, "trivial": 0, "kind": "contract", "source_hash": None, "detail": ""}
    t0 = time.time()
    try:
        repo = _REPO()
        reg = load_sidecars(CONTRACTS)
        ex = Exec(repo, reg, name)
        if name in reg.lemmas:
            out["kind"] = "lemma"
            ex.verify_lemma(reg.lemmas[name])
        elif name in reg.harnesses:
            out["kind"] = "harness"
            ex.verify_harness(reg.harnesses[name])
        else:
            from pyvc.contracts import split_unit
            base, _inst = split_unit(name)
            c = reg.contracts[base]
            mi, ci, fn = repo.find_function(base)
            out["source_hash"] = repo.source_hash(fn)
            if c.trusted:
                out["kind"] = "trusted"
                out["status"] = "trusted"
                return out
            ex.verify_function(base, c, mi, ci, fn)
        out["gen_s"] = time.time() - t0
        out["assumptions"] = list(ex.assumptions)
        out["used_contracts"] = sorted(ex.used_contracts)
        out["trivial"] = ex.trivial
        t1 = time.time()
        for ob in ex.obligations:
            post = (lambda m: cex.extract_inputs(ex, m)) if (want_cex and out["kind"] != "lemma") else None
            r = solve.check(ob.hyps, ob.goal, extra=ex.global_facts, post=post, want_model=post is not None)
            rec = {"oid": ob.oid, "clause": ob.clause, "site": ob.site, "line": ob.line, "status": r.status,
                   "backend": r.backend, "time": round(r.time, 4), "note": ob.note, "exc": ob.exc,
                   "reason": r.reason, "cex": None, "outside_known": None}
            if r.status != "unsat":
                if os.environ.get("PYVC_DUMP_FAILING"):
                    try:
                        os.makedirs(os.environ["PYVC_DUMP_FAILING"], exist_ok=True)
                        with open(os.path.join(os.environ["PYVC_DUMP_FAILING"], slug(ob.oid) + ".smt2"), "w") as fh:
                            fh.write("(set-logic ALL)\n" + solve._export(ob.hyps, ob.goal, ex.global_facts))
                    except Exception:
                        pass
                if isinstance(r.model, dict):
                    rec["cex"] = r.model.get("cex")
                    if r.model.get("cex_error"):
                        rec["cex_error"] = r.model["cex_error"]
                # known-finding regions: is the obligation discharged outside them?
                regions = [kf for kf in known_regions if kf.get("oid") == ob.oid and kf.get("region")]
                if regions and ex.entry_state is not None:
                    extra_h = []
                    for kf in regions:
                        extra_h.append(z3.Not(ex.ev_spec(kf["region"], ex.entry_state)))
                    r2 = solve.check(ob.hyps + extra_h, ob.goal, extra=ex.global_facts, want_model=True, post=post)
                    rec["outside_known"] = r2.status
                    if r2.status != "unsat" and isinstance(r2.model, dict) and r2.model.get("cex"):
                        rec["cex_outside"] = r2.model["cex"]
            out["obligations"].append(rec)
        out["solve_s"] = time.time() - t1
    except StaleContract as err:
        out["status"] = "stale"
        out["detail"] = str(err)
    except Unsupported as err:
        out["status"] = "unsupported"
        out["detail"] = str(err)
    except KeyError as err:
        out["status"] = "missing"
        out["detail"] = f"not found in /repo: {err}"
    except Exception as err:
        out["status"] = "error"
        out["detail"] = f"{type(err).__name__}: {err}\n" + traceback.format_exc()[-1500:]
    return out


_repo_cache = None


def _REPO():
    global _repo_cache
    if _repo_cache is None:
        from pyvc.frontend import Repo
        _repo_cache = Repo()
    return _repo_cache


# ------------------------------------------------------------------------------- replay
def run_replay(path: str, timeout=60) -> dict:
    try:
        env = dict(os.environ)
        if os.environ.get("PYVC_REPO"):
            # developer / mutation runs on a scratch copy: replay against the same tree the VCs came from
            env["PYTHONPATH"] = os.path.join(os.environ["PYVC_REPO"], "src")
        p = subprocess.run([VENV_PY, os.path.join(ROOT, "replay", "run.py"), path], capture_output=True, text=True,
                           timeout=timeout, cwd=ROOT, env=env)
        line = p.stdout.strip().splitlines()[-1] if p.stdout.strip() else ""
        return json.loads(line) if line else {"status": "error", "detail": p.stderr[-500:]}
    except subprocess.TimeoutExpired:
        return {"status": "violation", "kind": "hang", "detail": f"replay process did not finish in {timeout}s"}
    except Exception as err:
        return {"status": "error", "detail": repr(err)}


def write_replay(unit, ob, inputs=None, search=None, extra=None) -> str:
    os.makedirs(REPLAY_DIR, exist_ok=True)
    path = os.path.join(REPLAY_DIR, slug(ob["oid"]) + ".json")
    spec = {"unit": unit, "obligation": {k: ob.get(k) for k in ("oid", "clause", "site", "line", "note", "status",
                                                                  "reason", "backend")}}
    if inputs is not None:
        spec["inputs"] = inputs
    if search is not None:
        spec["search"] = search
    if extra:
        spec.update(extra)
    with open(path, "w") as fh:
        json.dump(spec, fh, indent=1)
    return path


def kind_matches(ob, res) -> bool:
    """Does the run-time failure correspond to the failed obligation?"""
    k = res.get("kind", "")
    cl = ob["clause"]
    if k == "hang":
        return "decreases" in cl or cl == "raises" or True
    if cl == "raises":
        return k == "raises"
    if cl.startswith("ensures") or cl.startswith("raises["):
        return k.startswith("ensures") or k.startswith("raises") or k == "raises"
    # loop invariants / call preconditions / frames surface at run time as any contract failure
    return True


# ------------------------------------------------------------------------------- main
def load_properties():
    import runpy
    return runpy.run_path(PROPS)["PROPERTIES"]


def select_units(reg, pid):
    units = []
    for kind, name in reg.unit_order:
        if kind == "lemma":
            tags = reg.lemmas[name].tags
        elif kind == "harness":
            tags = reg.harnesses[name].tags
        else:
            tags = reg.contracts[name].tags
        if pid in tags:
            units.extend(expand_instances(reg, name))
    return units


def expand_instances(reg, name, like=None):
    """Units of a contract: one per declared instance (or the one matching the caller's instance)."""
    from pyvc.contracts import split_unit, unit_name
    c = reg.contracts.get(name)
    if c is None or not c.instances:
        return [name]
    if like:
        _b, inst = split_unit(like)
        if inst and inst in c.instances:
            return [unit_name(name, inst)]
    return [unit_name(name, inst) for inst in c.instances]


def contract_of(reg, unit):
    from pyvc.contracts import split_unit
    if unit in reg.harnesses:
        return reg.harnesses[unit].contract
    return reg.contracts.get(split_unit(unit)[0])


def param_types_of(reg, repo, unit):
    """type strings of a unit's parameters, for the fallback input search."""
    import ast
    try:
        if unit in reg.harnesses:
            c = reg.harnesses[unit].contract
            return dict(c.params)
        from pyvc.contracts import split_unit
        c = reg.contracts[split_unit(unit)[0]]
        mi, ci, fn = repo.find_function(split_unit(unit)[0])
        out = {}
        names = [a.arg for a in fn.args.args]
        for i, n in enumerate(names):
            if i == 0 and ci is not None and n in ("self", "cls"):
                if n == "self":
                    out[n] = ci.name
                continue
            if n in c.params:
                out[n] = c.params[n]
            else:
                ann = fn.args.args[i].annotation
                out[n] = ast.unparse(ann).replace("Optional[", "opt[") if ann is not None else "any"
        return out
    except Exception:
        return {}


def class_fields(reg, repo):
    import ast
    out = {}
    for q, cs in reg.classes.items():
        out[q.split(":")[-1]] = dict(cs.fields)
    for name, ci in repo.classes.items():
        if ":" in name or not ci.is_dataclass or name in out:
            continue
        f = {}
        for fname, ann, _d in ci.dc_fields:
            if ann is not None:
                f[fname] = ast.unparse(ann).replace("Optional[", "opt[")
        out[name] = f
    return out


def decide(pid: str, tier: str, seed: int, verbose=False, only_units=None) -> int:
    from pyvc.contracts import load_sidecars
    t_start = time.time()
    reg = load_sidecars(CONTRACTS)
    repo = _REPO()
    props = load_properties()
    if pid not in props and not only_units:
        print(f"unknown property {pid}")
        return 3
    pinfo = props.get(pid, {})
    known = json.load(open(os.path.join(ROOT, "known_findings.json")))["findings"] if os.path.exists(
        os.path.join(ROOT, "known_findings.json")) else []
    ledger = json.load(open(os.path.join(ROOT, "ledger.json"))) if os.path.exists(os.path.join(ROOT, "ledger.json")) else {}
    open_known = [k for k in known if k.get("status") == "open"]
    units = only_units or select_units(reg, pid)
    if not units:
        print(f"checker defect: no units carry tag {pid}")
        return 3
    # closure over contracts used at call sites
    results = {}
    pending = list(units)
    # hard obligations fan out to up to four external solver processes each, so leave head-room
    nproc = int(os.environ.get("PYVC_JOBS", str(max(2, min(12, (os.cpu_count() or 4) * 3 // 4)))))
    # one fresh process per unit: fresh-name counters and the axiom set (which grows with the constructs a unit uses)
    # then depend on the unit alone, so the VC text of a unit is the same in every run and in every check
    with mp.Pool(nproc, maxtasksperchild=1) as pool:
        while pending:
            jobs = [(u, [k for k in open_known if k.get("unit") == u], True) for u in pending]
            pending = []
            for res in pool.imap_unordered(verify_unit, jobs):
                results[res["unit"]] = res
                for dep0 in res["used_contracts"]:
                    if dep0 not in reg.contracts:
                        continue
                    for dep in expand_instances(reg, dep0, like=res["unit"]):
                        if dep not in results and dep not in pending:
                            pending.append(dep)
    # ------------------------------------------------------------------ judge
    violations = []      # (unit, ob, replay_path, suffix)
    undecided = []
    defects = []
    known_lines = []
    n_obl = n_dis = 0
    by_backend = {}
    solver_time = 0.0
    samples = []
    slow = []
    failing = []
    outside_subset = []
    for u in sorted(results):
        res = results[u]
        if res["status"] in ("unsupported", "stale", "missing"):
            outside_subset.append({"unit": u, "status": res["status"], "detail": res["detail"]})
            undecided.append((u, None, f"{res['status']}: {res['detail']}"))
            continue
        if res["status"] == "error":
            defects.append((u, res["detail"]))
            continue
        if res["status"] == "trusted":
            continue
        n_obl += res["trivial"]
        n_dis += res["trivial"]
        if res["trivial"]:
            by_backend["simplify"] = by_backend.get("simplify", 0) + res["trivial"]
        solver_time += res["solve_s"]
        for ob in res["obligations"]:
            n_obl += 1
            if ob["status"] == "unsat":
                n_dis += 1
                by_backend[ob["backend"]] = by_backend.get(ob["backend"], 0) + 1
                if ob["backend"] != "z3" or ob["time"] > 5:
                    slow.append({"obligation": ob["oid"], "backend": ob["backend"], "time_s": ob["time"], "line": ob["line"]})
                if len(samples) < 6:
                    samples.append({"obligation": ob["oid"], "backend": ob["backend"], "time_s": ob["time"],
                                    "clause_text": ob["note"][:160]})
            else:
                failing.append((u, ob))
    if os.environ.get("PYVC_WRITE_LEDGER") == "1":
        # maintainer action on the pinned tree only (tools/make_ledger.sh); never done by a check run
        lpath = os.path.join(ROOT, "ledger.json")
        led = json.load(open(lpath)) if os.path.exists(lpath) else {}
        cl = led.setdefault("clauses", {})
        failing_keys = {f"{u}::{ob['clause']}" for u, ob in failing}
        for u in sorted(results):
            for ob in results[u]["obligations"]:
                key = f"{u}::{ob['clause']}"
                if ob["status"] == "unsat" and key not in failing_keys:
                    cl.setdefault(key, []).append(pid) if pid not in cl.get(key, []) else None
        json.dump(led, open(lpath, "w"), indent=0, sort_keys=True)
    ptypes_cache = {}
    cf = None
    # units that left the verified subset (new loop without invariant, unsupported construct, stale sidecar): no proof
    # is possible, so the verdict is UNDECIDED (exit 2) -- unless the bounded stand-in (run-time contract on scenario /
    # boundary inputs, against the real code) exhibits a concrete violation, which is then reported with its replay
    bounded_standins = []
    for item in outside_subset:
        u = item["unit"]
        if u in reg.lemmas or item["status"] == "missing":
            continue
        if cf is None:
            cf = class_fields(reg, repo)
        types = ptypes_cache.setdefault(u, param_types_of(reg, repo, u))
        c = contract_of(reg, u)
        if not types or c is None:
            continue
        seeds = [json.loads(json.dumps({k: v for k, v in w.items() if k != "$instance"}, default=_enc))
                 for w in c.witness if not (isinstance(w, dict) and "$instance" in w and w["$instance"] != _split_unit(u)[1])]
        n = 600 if tier == "quick" else 6000
        fake = {"oid": f"{u}::bounded-standin", "clause": "bounded-standin", "site": item["status"], "line": 0,
                "note": "unit outside the verified subset: " + item["detail"][:200], "status": "", "reason": "", "backend": ""}
        spath = write_replay(u, dict(fake, oid=fake["oid"] + "#search"),
                             search={"n": n, "seed": seed, "types": types, "classes": cf, "seeds": seeds})
        rr = run_replay(spath, timeout=180 if tier == "quick" else 900)
        bounded_standins.append({"unit": u, "why": item["status"], "inputs_tried": rr.get("tried"),
                                 "result": rr.get("status"), "labelled": "bounded, not counted as proved"})
        if rr.get("status") == "violation":
            rpath = write_replay(u, fake, inputs=rr["inputs"], extra={"found_by": rr.get("found_by", "bounded search"),
                                                                      "result": rr})
            violations.append((u, dict(fake, note=f"{rr.get('kind')}: {str(rr.get('clause') or rr.get('detail'))[:160]}"), rpath, ""))
    for u, ob in failing:
        kfs_here = [k for k in open_known if k.get("unit") == u and k.get("oid") == ob["oid"]]
        regions = [k["region"] for k in kfs_here if k.get("region")]
        known_ok = False
        if kfs_here:
            # a finding only counts while its own witness still fails on the real code
            known_ok = True
            for kf in kfs_here:
                wpath = write_replay(u, dict(ob, oid=ob["oid"] + "#known-" + kf["id"]), inputs=kf["witness"])
                wr = run_replay(wpath)
                if wr.get("status") != "violation":
                    known_ok = False
            if known_ok and ob.get("outside_known") == "unsat":
                for kf in kfs_here:
                    known_lines.append(f"KNOWN-FINDING: property={pid} {kf['id']} {kf['what']}")
                continue
        excl = regions if known_ok else []
        # 1. replay the solver's candidate (outside the known regions, if any)
        reproduced = None
        rpath = None
        cand = ob.get("cex_outside") if (known_ok and ob.get("cex_outside")) else ob.get("cex")
        if cand is not None:
            rpath = write_replay(u, ob, inputs=cand, extra={"exclude_regions": excl})
            rr = run_replay(rpath)
            if rr.get("status") == "violation" and kind_matches(ob, rr):
                reproduced = rr
        if reproduced is None and results[u]["kind"] != "lemma":
            if cf is None:
                cf = class_fields(reg, repo)
            types = ptypes_cache.setdefault(u, param_types_of(reg, repo, u))
            if types:
                seeds = [x for x in (ob.get("cex"), ob.get("cex_outside")) if x]
                c = contract_of(reg, u)
                seeds += [json.loads(json.dumps({k: v for k, v in w.items() if k != "$instance"}, default=_enc))
                          for w in (c.witness if c else [])
                          if not (isinstance(w, dict) and "$instance" in w and w["$instance"] != _split_unit(u)[1])]
                n = 400 if tier == "quick" else 4000
                sp = {"n": n, "seed": seed, "types": types, "classes": cf, "seeds": seeds}
                spath = write_replay(u, dict(ob, oid=ob["oid"] + "#search"), search=sp, extra={"exclude_regions": excl})
                rr = run_replay(spath, timeout=120 if tier == "quick" else 600)
                if rr.get("status") == "violation" and kind_matches(ob, rr):
                    reproduced = rr
                    rpath = write_replay(u, ob, inputs=rr["inputs"], extra={"found_by": "bounded search", "result": rr,
                                                                            "exclude_regions": excl})
        if reproduced is not None:
            violations.append((u, ob, rpath, ""))
            continue
        if known_ok:
            for kf in kfs_here:
                known_lines.append(f"KNOWN-FINDING: property={pid} {kf['id']} {kf['what']}")
            key = f"{u}::{ob['clause']}"
            if key in ledger.get("outside_known", {}):
                rpath = write_replay(u, ob, inputs=ob.get("cex_outside"), extra={
                    "no_failing_input_found": True, "exclude_regions": excl,
                    "solver_output": {"status": ob.get("outside_known"), "backend": ob["backend"]}})
                violations.append((u, ob, rpath, " no-failing-input-found"))
            else:
                undecided.append((u, ob, "fails inside a known-finding region; the complement is neither discharged "
                                         "nor refuted by replay"))
            continue
        # 3. no failing input found
        key = f"{u}::{ob['clause']}"
        if key in ledger.get("clauses", {}):
            rpath = write_replay(u, ob, inputs=ob.get("cex"), extra={
                "no_failing_input_found": True,
                "solver_output": {"status": ob["status"], "reason": ob["reason"], "backend": ob["backend"]}})
            violations.append((u, ob, rpath, " no-failing-input-found"))
        else:
            undecided.append((u, ob, f"{ob['status']} ({ob['reason']}), not in ledger, no failing input found"))
    # ------------------------------------------------------------------ vacuity / witnesses
    witness_runs = 0
    witness_fail = []
    for u in sorted(results):
        c = contract_of(reg, u)
        if c is None or not c.witness or results[u]["status"] != "ok":
            continue
        from pyvc.contracts import split_unit as _split
        for i, w in enumerate(c.witness[:2]):
            if isinstance(w, dict) and "$instance" in w:
                if w["$instance"] != _split(u)[1]:
                    continue
                w = {k: v for k, v in w.items() if k != "$instance"}
            enc = json.loads(json.dumps(w, default=_enc))
            wp = write_replay(u, {"oid": f"{u}::witness[{i}]", "clause": "witness", "site": "", "line": 0,
                                  "note": "", "status": "", "reason": "", "backend": ""}, inputs=enc)
            wr = run_replay(wp)
            witness_runs += 1
            if wr.get("status") == "precondition-false":
                witness_fail.append((u, i, "witness does not satisfy requires (vacuity guard)"))
            elif wr.get("status") == "error":
                witness_fail.append((u, i, "witness replay error: " + str(wr.get("detail"))[:200]))
            elif wr.get("status") == "violation":
                known_here = [k for k in open_known if k.get("unit") == u]
                if not known_here:
                    violations.append((u, {"oid": f"{u}::witness[{i}]", "clause": wr.get("kind", "witness"),
                                           "site": "committed witness", "line": 0, "note": str(wr)[:300]}, wp, ""))
    # ------------------------------------------------------------------ report
    wall = time.time() - t_start
    os.makedirs(EVIDENCE, exist_ok=True)
    functions = []
    for u in sorted(results):
        r = results[u]
        functions.append({"unit": u, "kind": r["kind"], "status": r["status"], "source_hash": r["source_hash"],
                          "obligations": len(r["obligations"]) + r["trivial"],
                          "discharged": sum(1 for o in r["obligations"] if o["status"] == "unsat") + r["trivial"]})
    assumptions = sorted({a for r in results.values() for a in r["assumptions"]})
    trusted = [u for u, r in results.items() if r["status"] == "trusted"]
    evidence = {
        "property_id": pid, "tier": tier, "seed": seed, "level": "proof",
        "coverage": {
            "obligations": n_obl, "discharged": n_dis,
            "checker_cmd": f"./check {pid} --tier {tier}",
            "trusted_base": pinfo.get("trusted_base", []) + [f"trusted contract: {t}" for t in trusted],
            "functions_under_contract": functions,
            "by_backend": by_backend, "solver_time_s": round(solver_time, 3),
            "samples": samples,
            "needed_fallback_or_slow": slow,
            "failing_obligations": [{"unit": u, "oid": ob["oid"], "status": ob["status"], "reason": ob.get("reason")}
                                    for u, ob in failing],
            "outside_subset": outside_subset,
            "witness_replays": witness_runs,
            "known_findings": known_lines,
            "not_decided": pinfo.get("not_decided", []),
            "bounded_standins": pinfo.get("bounded_standins", []) + bounded_standins,
        },
        "assumptions": pinfo.get("assumptions", []) + assumptions,
        "wall_s": round(wall, 2),
        "violations": len(violations),
    }
    with open(os.path.join(EVIDENCE, f"{pid}.json"), "w") as fh:
        json.dump(evidence, fh, indent=1)
    for line in known_lines:
        print(line)
    print(f"{pid}: {n_dis}/{n_obl} obligations discharged over {len(results)} units "
          f"({by_backend}), {len(failing)} failing, solver {solver_time:.1f}s, wall {wall:.1f}s")
    if defects:
        for u, d in defects:
            print(f"CHECKER-DEFECT unit={u}: {d}")
        return 3
    if witness_fail:
        for u, i, why in witness_fail:
            print(f"CHECKER-DEFECT unit={u} witness[{i}]: {why}")
        return 3
    if n_obl == 0 and not outside_subset:
        print("CHECKER-DEFECT: zero obligations generated")
        return 3
    if violations:
        for u, ob, rpath, suffix in violations:
            rel = os.path.relpath(rpath, ROOT) if rpath else "-"
            print(f"  failed obligation: {ob['oid']} (line {ob.get('line')}) {ob.get('note', '')[:120]}")
            print(f"VIOLATION property={pid} replay={rel}{suffix}")
        return 1
    if undecided:
        for u, ob, why in undecided:
            print(f"UNDECIDED unit={u} {ob['oid'] if ob else ''}: {why}")
        return 2
    return 0


def _enc(o):
    if isinstance(o, (bytes, bytearray)):
        return {"$bytes": bytes(o).hex()}
    if isinstance(o, tuple):
        return {"$tuple": list(o)}
    raise TypeError(type(o))


def main(argv=None):
    ap = argparse.ArgumentParser()
    ap.add_argument("property", nargs="?")
    ap.add_argument("--tier", default=os.environ.get("VERIF_TIER", "quick"))
    ap.add_argument("--replay")
    ap.add_argument("--unit", action="append")
    ap.add_argument("-v", action="store_true")
    args = ap.parse_args(argv)
    seed = int(os.environ.get("VERIF_SEED", "0") or 0)
    if args.replay:
        res = run_replay(args.replay)
        print(json.dumps(res, indent=1))
        return 1 if res.get("status") == "violation" else 0
    if args.unit:
        return decide(args.property or "DEV", args.tier, seed, args.v, only_units=args.unit)
    if not args.property:
        ap.error("property id required")
    return decide(args.property, args.tier, seed, args.v)


if __name__ == "__main__":
    sys.exit(main())
