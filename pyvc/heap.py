"""Boogie-style heap (mixin of Exec): one map per field, list/dict/set contents as maps
from references to values; allocation set; attribute access; object equality."""
from __future__ import annotations

import ast

import z3

from .prelude import prelude, Int, Bool
from .state import State
from .ptypes import *  # noqa
from .values import (V, TPy, Unsupported, box, unbox, coerce, fresh, ite, join_types, none_of, some_of,
                     opt_is_none, opt_get, sort_of, theory_of, seq_theory, is_simple, fresh_name, _counter)
from .expr import DeadPath, I


def _occurs(var, term) -> bool:
    seen, stack = set(), [term]
    while stack:
        t = stack.pop()
        if t.get_id() in seen:
            continue
        seen.add(t.get_id())
        if t.get_id() == var.get_id():
            return True
        stack.extend(t.children())
    return False


class HeapMixin:
    # ---- raw heap maps ------------------------------------------------------------
    def heap_map(self, st: State, key: str, val_sort) -> z3.ArrayRef:
        if key not in st.heap:
            if key not in self.heap0:
                self.heap0[key] = z3.Const("H0!" + key, z3.ArraySort(prelude().Ref, val_sort))
            st.heap[key] = self.heap0[key]
        return st.heap[key]

    def heap_read(self, st, key, val_sort, ref):
        return z3.Select(self.heap_map(st, key, val_sort), ref)

    def heap_write(self, st, key, val_sort, ref, val):
        m = self.heap_map(st, key, val_sort)
        nm = z3.Const(fresh_name("H!" + key), m.sort())
        st.define(nm == z3.Store(m, ref, val))
        st.heap[key] = nm

    def alloc_map(self, st):
        if st.alloc is None:
            if self.alloc0 is None:
                self.alloc0 = z3.Const("alloc0", z3.ArraySort(prelude().Ref, Bool))
            st.alloc = self.alloc0
        return st.alloc

    def new_ref(self, st: State, base="obj") -> z3.ExprRef:
        P = prelude()
        r = z3.Const(fresh_name(base), P.Ref)
        al = self.alloc_map(st)
        st.define(z3.Not(z3.Select(al, r)))
        st.define(r != P.null)
        # fresh objects are distinct from everything allocated at entry as well
        if self.alloc0 is not None and al is not self.alloc0:
            st.define(z3.Not(z3.Select(self.alloc0, r)))
        na = z3.Const(fresh_name("alloc"), al.sort())
        st.define(na == z3.Store(al, r, True))
        st.alloc = na
        return r

    def assume_allocated(self, st, ref, nullable=False):
        al = self.alloc_map(st)
        fact = z3.Select(al, ref)
        if nullable:
            fact = z3.Or(ref == prelude().null, fact)
        else:
            fact = z3.And(ref != prelude().null, fact)
        if self.spec_mode:
            # evaluating a contract expression happens on a scratch copy of the state; allocatedness of what it
            # reads is a fact about the real state (same as a read in the code), so hand it to ev_spec_val
            if self._spec_facts is not None and not self.bound_vars:
                if st.guards:
                    fact = z3.Implies(z3.And(*st.guards), fact)
                self._spec_facts.append(fact)
            return
        st.pc.append(fact)

    # ---- class / field tables ---------------------------------------------------------
    def class_info(self, cname: str):
        ci = self.repo.classes.get(cname)
        if ci is None:
            raise Unsupported(f"unknown class {cname}")
        return ci

    def field_type(self, cname: str, attr: str):
        """(declaring class name, Type) or None."""
        cur = self.repo.classes.get(cname)
        if cur is None:
            # a view type declared only in a sidecar (the id table of HeaderExtensionsMap is a HeaderExtensions object whose
            # fields hold ids): its fields are exactly the declared ones
            for q, spec in self.reg.classes.items():
                if q.split(":")[-1] == cname and attr in spec.fields:
                    return cname, self.parse_type(spec.fields[attr])
            return None
        seen = set()
        while cur is not None and cur.qual not in seen:
            seen.add(cur.qual)
            spec = self.reg.classes.get(cur.qual)
            if spec is not None:
                pref = f"_{cur.name.lstrip('_')}__"
                if attr.startswith(pref) and ("__" + attr[len(pref):]) in spec.fields:
                    # sidecars write private fields the way the source does (self.__x); the heap key is the mangled name
                    return cur.name, self.parse_type(spec.fields["__" + attr[len(pref):]])
                if attr in spec.fields:
                    return cur.name, self.parse_type(spec.fields[attr])
                if attr in spec.ghost_fields:
                    return cur.name, self.parse_type(spec.ghost_fields[attr])
            for fname, ann, _default in cur.dc_fields:
                if fname == attr and cur.is_dataclass:
                    t = self.type_from_annotation(ann)
                    if t is not None:
                        return cur.name, t
            # a field the sidecar does not declare but the constructor annotates (self.x: T = ...): use the annotation
            init = cur.methods.get("__init__")
            if init is not None:
                for nd in ast.walk(init):
                    if (isinstance(nd, ast.AnnAssign) and isinstance(nd.target, ast.Attribute)
                            and isinstance(nd.target.value, ast.Name) and nd.target.value.id == "self"):
                        nm = nd.target.attr
                        if nm.startswith("__") and not nm.endswith("__"):
                            nm = f"_{cur.name.lstrip('_')}{nm}"
                        if nm == attr:
                            t = self.type_from_annotation(nd.annotation)
                            if t is not None:
                                self.note_assumption(f"field {cur.name}.{attr} typed from its annotation (not declared in the sidecar)")
                                return cur.name, t
            nxt = None
            for b in cur.bases:
                cand = self.repo.resolve_class(cur.module, b)
                if cand is not None:
                    nxt = cand
                    break
            cur = nxt
        return None

    def type_from_annotation(self, ann):
        if ann is None:
            return None
        try:
            if isinstance(ann, ast.Constant) and isinstance(ann.value, str):
                return self.parse_type(ann.value)
            txt = ast.unparse(ann)
            txt = txt.replace("Optional[", "opt[").replace("typing.", "")
            return self.parse_type(txt)
        except Exception:
            return None

    def parse_type(self, text: str) -> Type:
        if text not in self._type_cache:
            self._type_cache[text] = parse_type(text, self.repo.classes)
        return self._type_cache[text]

    def mangle(self, attr: str) -> str:
        if attr.startswith("__") and not attr.endswith("__"):
            ci = self.ctx[-1][1]
            if ci is not None:
                return f"_{ci.name.lstrip('_')}{attr}"
        return attr

    # ---- attribute access ------------------------------------------------------------
    def getattr_of(self, base: V, attr: str, st: State, node) -> V:
        if self.spec_mode and attr.startswith("__") and not attr.endswith("__"):
            # contract expressions name a private field of *any* object the way that object's class writes it
            bt = base.t.inner if isinstance(base.t, TOpt) else base.t
            if isinstance(bt, TObj) and self.field_type(bt.cls, f"_{bt.cls.lstrip('_')}{attr}") is not None:
                attr = f"_{bt.cls.lstrip('_')}{attr}"
        attr = self.mangle(attr)
        t = base.t
        if isinstance(t, TPy):
            return self.py_getattr(base, attr, st, node)
        if isinstance(t, TOpt):
            self.may_raise(st, opt_is_none(base), "AttributeError", node, f"None has no attribute {attr}")
            base = opt_get(base)
            t = base.t
        if isinstance(t, TNone):
            self.may_raise(st, z3.BoolVal(True), "AttributeError", node, f"None has no attribute {attr}")
            raise DeadPath()
        if isinstance(t, TObj):
            ft = self.field_type(t.cls, attr)
            if ft is not None:
                decl, ftype = ft
                return self.read_field(st, base.z, decl, attr, ftype)
            ci = self.class_info(t.cls)
            m = self.repo.lookup_method(ci, attr)
            if m is None and attr.startswith("_") and "__" in attr[1:]:
                # name-mangled private method: self.__discard is stored as __discard in the class body
                plain = attr[attr.index("__", 1):]
                m = self.repo.lookup_method(ci, plain)
                if m is not None:
                    attr = plain
            if m is not None:
                mci, mnode = m
                decs = mci.decorators.get(attr, [])
                if "property" in decs:
                    return self.call_function(st, mci, mnode, [base], {}, node)
                return V(TPy("bound"), ("bound", base, mci, mnode))
            if attr in ci.class_consts:
                return self.eval_class_const(ci, attr, st)
            if attr in getattr(ci, "nested", {}):
                return V(TPy("class"), ("class", ci.nested[attr]))
            if attr in ("emit", "remove_all_listeners", "on", "once", "listeners", "remove_listener"):
                # pyee event-emitter API inherited from an external base class
                return V(TPy("emitter"), ("emitter", base, attr))
            raise Unsupported(f"unknown attribute {t.cls}.{attr} (declare it in the class sidecar)")
        if isinstance(t, (TBytes, TStr, TList, TDict, TSet, TSeq, TInt, TReal, TTuple)):
            return V(TPy("bmeth"), ("bmeth", base, attr))
        if isinstance(t, TEnum):
            if attr in ("value", "name"):
                return fresh(ANY if attr == "value" else STR, "enum_" + attr)
        if isinstance(t, TOpaque):
            return V(TPy("opaque_attr"), ("opaque_attr", base, attr))
        raise Unsupported(f"attribute {attr} of {t}: {self.src(node)}")

    def read_field(self, st, ref, decl: str, attr: str, ftype: Type) -> V:
        term = self.heap_read(st, f"{decl}.{attr}", sort_of(ftype), ref)
        v = unbox(term, ftype)
        self.typing_facts(st, v)
        return v

    def write_field(self, st, ref, decl: str, attr: str, ftype: Type, val: V):
        val = self.coerce_to(st, val, ftype)   # an untyped [] gets its element type (and empty content) here
        self.heap_write(st, f"{decl}.{attr}", sort_of(ftype), ref, box(val))

    def typing_facts(self, st, v: V):
        """Facts true of every value of the static type (allocatedness of references)."""
        t = v.t
        if is_ref_type(t) and not isinstance(t, TOpaque):
            self.assume_allocated(st, v.z)
            if isinstance(t, TObj):
                self.assume_class(st, v.z, t.cls)
        elif isinstance(t, TOpt) and is_ref_type(t.inner) and not isinstance(t.inner, TOpaque):
            self.assume_allocated(st, v.z, nullable=True)

    def assume_class(self, st, ref, cname):
        pass  # dynamic class facts are introduced by isinstance handling (calls.py)

    def setattr_of(self, base: V, attr: str, val: V, st: State, node):
        attr = self.mangle(attr)
        t = base.t
        if isinstance(t, TOpt):
            self.may_raise(st, opt_is_none(base), "AttributeError", node, f"None has no attribute {attr}")
            base = opt_get(base)
            t = base.t
        if isinstance(t, TOpaque):
            return
        if not isinstance(t, TObj):
            raise Unsupported(f"attribute store on {t}")
        ft = self.field_type(t.cls, attr)
        if ft is None:
            ci = self.class_info(t.cls)
            m = self.repo.lookup_method(ci, attr)
            raise Unsupported(f"store to undeclared field {t.cls}.{attr}")
        decl, ftype = ft
        self.write_field(st, base.z, decl, attr, ftype, val)
        self.written_fields.add(f"{decl}.{attr}")

    # ---- lists ------------------------------------------------------------------------
    def list_key(self, elt: Type) -> str:
        return "list<" + seq_theory(elt).name + ">"

    def list_content(self, st, lst: V):
        st = getattr(lst, "_snap", None) or st
        th = theory_of(lst.t)
        return self.heap_read(st, self.list_key(lst.t.elt), th.S, lst.z)

    def set_list_content(self, st, lst: V, seq):
        th = theory_of(lst.t)
        self.heap_write(st, self.list_key(lst.t.elt), th.S, lst.z, seq)

    def new_list(self, st, elt: Type, items: list) -> V:
        if isinstance(elt, TOpaque) and elt.name == "empty":
            v = V(TList(elt), None)
            v._pending = True
            r = self.new_ref(st, "list")
            v.z = r
            return v
        th = seq_theory(elt)
        v = self.new_list_from_seq(st, elt, th.lit([box(x) for x in items]))
        return v

    def new_list_from_seq(self, st, elt: Type, seq) -> V:
        r = self.new_ref(st, "list")
        v = V(TList(elt), r)
        self.set_list_content(st, v, seq)
        return v

    def retype_empty_list(self, st, lst: V, elt: Type) -> V:
        """An empty list literal gets its element type at first use."""
        nv = V(TList(elt), lst.z)
        self.set_list_content(st, nv, seq_theory(elt).Empty)
        return nv

    # ---- dicts / sets --------------------------------------------------------------------
    def dict_keys(self, t: TDict):
        ks, vs = sort_of(t.key), sort_of(t.val)
        name = f"dict<{ks.name()},{vs.name()}>"
        return name, ks, vs

    def dict_dom(self, st, d: V):
        st = getattr(d, "_snap", None) or st
        name, ks, vs = self.dict_keys(d.t)
        return self.heap_read(st, name + ".dom", z3.ArraySort(ks, Bool), d.z)

    def dict_val(self, st, d: V):
        st = getattr(d, "_snap", None) or st
        name, ks, vs = self.dict_keys(d.t)
        return self.heap_read(st, name + ".val", z3.ArraySort(ks, vs), d.z)

    def dict_has(self, st, d: V, k: V):
        return z3.Select(self.dict_dom(st, d), box(k))

    def dict_get(self, st, d: V, k: V) -> V:
        v = unbox(z3.Select(self.dict_val(st, d), box(k)), d.t.val)
        if getattr(d, "_snap", None) is not None:
            v._snap = d._snap
        # heap well-formedness: a container stored in a dict is an allocated object (so it cannot alias one
        # allocated later); guarded by membership, since the value at an absent key is unconstrained
        if is_ref_type(d.t.val) and not isinstance(d.t.val, TOpaque):
            al = self.alloc_map(st)
            fact = z3.Implies(self.dict_has(st, d, k), z3.And(v.z != prelude().null, z3.Select(al, v.z)))
            used = [b for b in self.bound_vars if _occurs(b, v.z)]
            if used:
                fact = z3.ForAll(used, fact, patterns=[v.z])
            if self.spec_mode:
                if self._spec_facts is not None:
                    self._spec_facts.append(z3.Implies(z3.And(*st.guards), fact) if st.guards else fact)
            else:
                st.pc.append(z3.Implies(z3.And(*st.guards), fact) if st.guards else fact)
        return v

    def dict_set(self, st, d: V, k: V, val: V):
        name, ks, vs = self.dict_keys(d.t)
        dom, vm = self.dict_dom(st, d), self.dict_val(st, d)
        self.heap_write(st, name + ".dom", z3.ArraySort(ks, Bool), d.z, z3.Store(dom, box(k), True))
        self.heap_write(st, name + ".val", z3.ArraySort(ks, vs), d.z,
                        z3.Store(vm, box(k), box(self.coerce_to(st, val, d.t.val))))

    def dict_del(self, st, d: V, k: V):
        name, ks, vs = self.dict_keys(d.t)
        dom = self.dict_dom(st, d)
        self.heap_write(st, name + ".dom", z3.ArraySort(ks, Bool), d.z, z3.Store(dom, box(k), False))

    def dict_size(self, st, d: V):
        name, ks, vs = self.dict_keys(d.t)
        f = prelude().func("card<" + ks.name() + ">", z3.ArraySort(ks, Bool), Int)
        self.card_axioms(f, ks)
        return f(self.dict_dom(st, d))

    def new_dict(self, st, t: TDict) -> V:
        r = self.new_ref(st, "dict")
        v = V(t, r)
        if not isinstance(t.key, TOpaque):
            name, ks, vs = self.dict_keys(t)
            self.heap_write(st, name + ".dom", z3.ArraySort(ks, Bool), r, z3.K(ks, False))
        return v

    def set_key(self, t: TSet):
        es = sort_of(t.elt)
        return f"set<{es.name()}>", es

    def set_dom(self, st, s: V):
        st = getattr(s, "_snap", None) or st
        name, es = self.set_key(s.t)
        return self.heap_read(st, name, z3.ArraySort(es, Bool), s.z)

    def set_has(self, st, s: V, x: V):
        return z3.Select(self.set_dom(st, s), box(x))

    def set_write(self, st, s: V, dom):
        name, es = self.set_key(s.t)
        self.heap_write(st, name, z3.ArraySort(es, Bool), s.z, dom)

    def set_size(self, st, s: V):
        name, es = self.set_key(s.t)
        f = prelude().func("card<" + es.name() + ">", z3.ArraySort(es, Bool), Int)
        self.card_axioms(f, es)
        return f(self.set_dom(st, s))

    def new_set(self, st, t: TSet) -> V:
        r = self.new_ref(st, "set")
        v = V(t, r)
        name, es = self.set_key(t)
        self.heap_write(st, name, z3.ArraySort(es, Bool), r, z3.K(es, False))
        return v

    def retype_empty_set(self, st, s: V, t: TSet) -> V:
        v = V(t, s.z)
        name, es = self.set_key(t)
        self.heap_write(st, name, z3.ArraySort(es, Bool), s.z, z3.K(es, False))
        return v

    def card_axioms(self, f, ks):
        P = prelude()
        key = "cardax:" + f.name()
        if key in P.funcs:
            return
        P.funcs[key] = True
        m = z3.Const("m", z3.ArraySort(ks, Bool))
        x = z3.Const("x", ks)
        P.axioms.append(z3.ForAll([m], f(m) >= 0, patterns=[f(m)]))
        P.axioms.append(f(z3.K(ks, False)) == 0)
        P.axioms.append(z3.ForAll([m, x], z3.Implies(z3.Select(m, x), f(m) > 0),
                                  patterns=[z3.MultiPattern(f(m), z3.Select(m, x))]))
        P.axioms.append(z3.ForAll([m, x], f(z3.Store(m, x, True)) == z3.If(z3.Select(m, x), f(m), f(m) + 1),
                                  patterns=[f(z3.Store(m, x, True))]))
        P.axioms.append(z3.ForAll([m, x], f(z3.Store(m, x, False)) == z3.If(z3.Select(m, x), f(m) - 1, f(m)),
                                  patterns=[f(z3.Store(m, x, False))]))
        P.axioms.append(z3.ForAll([m], z3.Implies(f(m) == 0, m == z3.K(ks, False)), patterns=[f(m)]))

    # ---- object equality -------------------------------------------------------------------
    def class_has_value_eq(self, cname: str) -> bool:
        ci = self.repo.classes.get(cname)
        if ci is None:
            return False
        return ci.is_dataclass or self.repo.lookup_method(ci, "__eq__") is not None

    def object_equal(self, a: V, b: V, st, node):
        ci = self.repo.classes.get(a.t.cls)
        if ci is None or not ci.is_dataclass:
            if ci is not None and self.repo.lookup_method(ci, "__eq__") is not None:
                raise Unsupported(f"user-defined __eq__ on {a.t.cls}")
            return a.z == b.z
        if a.t.cls != b.t.cls:
            return z3.BoolVal(False)
        parts = []
        for fname, ann, _d in ci.dc_fields:
            ft = self.field_type(a.t.cls, fname)
            if ft is None:
                raise Unsupported(f"dataclass field {a.t.cls}.{fname} has no usable type")
            decl, ftype = ft
            fa = self.read_field(st, a.z, decl, fname, ftype)
            fb = self.read_field(st, b.z, decl, fname, ftype)
            parts.append(self.equal(fa, fb, st, node))
        return z3.Or(a.z == b.z, z3.And(*parts)) if parts else z3.BoolVal(True)
