"""Prelude: sorts, axiomatised sequences (Dafny/Boogie style), heap sorts, helpers.

Everything here is *trusted* (A-ENGINE); `selftest.py` checks each axiom on ground
instances against CPython and proves the bit lemmas over bit-vectors.

Design rules (see DESIGN 2.4): uninterpreted sorts + explicit patterns, no native
Seq theory, no Int<->BV conversion inside verification conditions.
"""
from __future__ import annotations

import z3

Int = z3.IntSort()
Bool = z3.BoolSort()
Real = z3.RealSort()


class SeqTheory:
    """One axiomatised sequence sort per element sort."""

    def __init__(self, name: str, elem: z3.SortRef, byte_range: bool = False):
        self.name = name
        self.E = elem
        self.S = z3.DeclareSort(name)
        S, E = self.S, elem
        self.Len = z3.Function(name + ".Len", S, Int)
        self.Idx = z3.Function(name + ".Idx", S, Int, E)
        self.Empty = z3.Const(name + ".Empty", S)
        self.Unit = z3.Function(name + ".Unit", E, S)
        self.App = z3.Function(name + ".App", S, S, S)
        self.Slice = z3.Function(name + ".Slice", S, Int, Int, S)
        self.Upd = z3.Function(name + ".Upd", S, Int, E, S)
        self.Eq = z3.Function(name + ".Eq", S, S, Bool)
        self.Rep = z3.Function(name + ".Rep", E, Int, S)  # x repeated n times
        self.byte_range = byte_range
        self.axioms = self._axioms()

    def _axioms(self):
        S, E = self.S, self.E
        Len, Idx, Unit, App, Slice, Upd, Eq, Rep = (
            self.Len, self.Idx, self.Unit, self.App, self.Slice, self.Upd, self.Eq, self.Rep)
        s, a, b = z3.Consts("s a b", S)
        x = z3.Const("x", E)
        k, lo, hi, i, n = z3.Ints("k lo hi i n")
        ax = []
        A = ax.append
        A(z3.ForAll([s], Len(s) >= 0, patterns=[Len(s)]))
        A(Len(self.Empty) == 0)
        A(z3.ForAll([s], z3.Implies(Len(s) == 0, s == self.Empty), patterns=[Len(s)]))
        A(z3.ForAll([x], z3.And(Len(Unit(x)) == 1, Idx(Unit(x), 0) == x), patterns=[Unit(x)]))
        A(z3.ForAll([a, b], Len(App(a, b)) == Len(a) + Len(b), patterns=[App(a, b)]))
        A(z3.ForAll([a, b, k], z3.And(
            z3.Implies(z3.And(0 <= k, k < Len(a)), Idx(App(a, b), k) == Idx(a, k)),
            z3.Implies(z3.And(Len(a) <= k, k < Len(a) + Len(b)),
                       Idx(App(a, b), k) == Idx(b, k - Len(a)))),
            patterns=[Idx(App(a, b), k)]))
        # list.append: the last element of a ++ [x] is x (stated directly; the general axiom needs the solver to equate
        # the index terms k - Len(a) and 0 by arithmetic, which E-matching does not always find)
        A(z3.ForAll([a, x, k], z3.Implies(k == Len(a), Idx(App(a, Unit(x)), k) == x),
                    patterns=[Idx(App(a, Unit(x)), k)]))
        A(z3.ForAll([a, x], Idx(App(a, Unit(x)), Len(a)) == x, patterns=[App(a, Unit(x))]))
        # reverse direction: an index into a component is an index into the append
        A(z3.ForAll([a, b, k], z3.Implies(z3.And(0 <= k, k < Len(b)),
                                          Idx(App(a, b), k + Len(a)) == Idx(b, k)),
                    patterns=[z3.MultiPattern(App(a, b), Idx(b, k))]))
        A(z3.ForAll([a, b, k], z3.Implies(z3.And(0 <= k, k < Len(a)),
                                          Idx(App(a, b), k) == Idx(a, k)),
                    patterns=[z3.MultiPattern(App(a, b), Idx(a, k))]))
        ok = z3.And(0 <= lo, lo <= hi, hi <= Len(s))
        A(z3.ForAll([s, lo, hi], z3.Implies(ok, Len(Slice(s, lo, hi)) == hi - lo),
                    patterns=[Slice(s, lo, hi)]))
        A(z3.ForAll([s, lo, hi, k],
                    z3.Implies(z3.And(ok, 0 <= k, k < hi - lo),
                               Idx(Slice(s, lo, hi), k) == Idx(s, lo + k)),
                    patterns=[Idx(Slice(s, lo, hi), k)]))
        A(z3.ForAll([s, lo, hi, k],
                    z3.Implies(z3.And(ok, lo <= k, k < hi),
                               Idx(Slice(s, lo, hi), k - lo) == Idx(s, k)),
                    patterns=[z3.MultiPattern(Slice(s, lo, hi), Idx(s, k))]))
        A(z3.ForAll([s], Slice(s, 0, Len(s)) == s, patterns=[Slice(s, 0, Len(s))]))
        A(z3.ForAll([s, i, x], z3.Implies(z3.And(0 <= i, i < Len(s)), Len(Upd(s, i, x)) == Len(s)),
                    patterns=[Upd(s, i, x)]))
        A(z3.ForAll([s, i, x, k],
                    z3.Implies(z3.And(0 <= i, i < Len(s), 0 <= k, k < Len(s)),
                               Idx(Upd(s, i, x), k) == z3.If(k == i, x, Idx(s, k))),
                    patterns=[Idx(Upd(s, i, x), k)]))
        # reverse direction: an index into the original is an index into the update
        A(z3.ForAll([s, i, x, k],
                    z3.Implies(z3.And(0 <= i, i < Len(s), 0 <= k, k < Len(s)),
                               Idx(Upd(s, i, x), k) == z3.If(k == i, x, Idx(s, k))),
                    patterns=[z3.MultiPattern(Upd(s, i, x), Idx(s, k))]))
        A(z3.ForAll([x, n], z3.Implies(n >= 0, Len(Rep(x, n)) == n), patterns=[Rep(x, n)]))
        A(z3.ForAll([x, n, k], z3.Implies(z3.And(0 <= k, k < n), Idx(Rep(x, n), k) == x),
                    patterns=[Idx(Rep(x, n), k)]))
        # extensionality
        A(z3.ForAll([a, b],
                    Eq(a, b) == z3.And(Len(a) == Len(b),
                                       z3.ForAll([k], z3.Implies(z3.And(0 <= k, k < Len(a)),
                                                                 Idx(a, k) == Idx(b, k)),
                                                 patterns=[Idx(a, k), Idx(b, k)])),
                    patterns=[Eq(a, b)]))
        A(z3.ForAll([a, b], z3.Implies(Eq(a, b), a == b), patterns=[Eq(a, b)]))
        if not self.byte_range and E.name() == "Ref":
            # Congruence made explicit for sequences of references (ring buffers, queues): two index terms into the
            # same sequence that arithmetic can prove equal (e.g. (o + n) % 65536 % C and (o + n) % C) denote the same
            # element.  Logically a tautology; as a triggered axiom it makes the solver decide the atom i == j, which
            # z3's arithmetic does not propagate to the E-graph by itself for mod/div terms.
            j = z3.Int("j")
            A(z3.ForAll([s, i, j], z3.Implies(i == j, Idx(s, i) == Idx(s, j)),
                        patterns=[z3.MultiPattern(Idx(s, i), Idx(s, j))]))
        if self.byte_range:
            A(z3.ForAll([s, k], z3.Implies(z3.And(0 <= k, k < Len(s)),
                                           z3.And(0 <= Idx(s, k), Idx(s, k) < 256)),
                        patterns=[Idx(s, k)]))
        return ax

    # convenience constructors -------------------------------------------------
    def lit(self, items):
        """Sequence literal from a python list of element terms."""
        if not items:
            return self.Empty
        r = self.Unit(items[0])
        for it in items[1:]:
            r = self.App(r, self.Unit(it))
        return r


class Prelude:
    """Process-wide registry of sorts, functions and axioms."""

    def __init__(self):
        self.Ref = z3.DeclareSort("Ref")
        self.null = z3.Const("null", self.Ref)
        self.Str = z3.DeclareSort("Str")
        self.seqs: dict[str, SeqTheory] = {}
        self.tuples: dict[str, object] = {}
        self.opts: dict[str, object] = {}
        self.axioms: list = []
        self.funcs: dict[str, z3.FuncDeclRef] = {}
        self.Bytes = self.seq_of(Int, name="Bytes", byte_range=True)
        # generic bit operations (uninterpreted + lemma axioms proved over BV in selftest)
        self.bor = z3.Function("bor", Int, Int, Int)
        self.band = z3.Function("band", Int, Int, Int)
        self.bxor = z3.Function("bxor", Int, Int, Int)
        self.pow2 = z3.Function("pow2", Int, Int)
        self.testbit = z3.Function("testbit", Int, Int, Bool)
        a, b, d, e = z3.Ints("a b d e")
        A = self.axioms.append
        A(z3.ForAll([a, b], z3.Implies(z3.And(a >= 0, b >= 0),
                                       z3.And(self.bor(a, b) >= a, self.bor(a, b) >= b,
                                              self.bor(a, b) <= a + b)),
                    patterns=[self.bor(a, b)]))
        A(z3.ForAll([a, b], self.bor(a, b) == self.bor(b, a), patterns=[self.bor(a, b)]))
        A(z3.ForAll([a], self.bor(a, 0) == a, patterns=[self.bor(a, 0)]))
        A(z3.ForAll([a, b], z3.Implies(z3.And(a >= 0, b >= 0),
                                       z3.And(self.band(a, b) >= 0, self.band(a, b) <= a,
                                              self.band(a, b) <= b)),
                    patterns=[self.band(a, b)]))
        A(z3.ForAll([a, b], z3.Implies(z3.And(a >= 0, b >= 0),
                                       z3.And(self.bxor(a, b) >= 0, self.bxor(a, b) <= a + b)),
                    patterns=[self.bxor(a, b)]))
        for i in range(0, 65):
            A(self.pow2(i) == 2 ** i)
        A(z3.ForAll([e], z3.Implies(e >= 0, z3.And(self.pow2(e) >= 1,
                                                   self.pow2(e + 1) == 2 * self.pow2(e))),
                    patterns=[self.pow2(e)]))
        # testbit(x, d): bit d of non-negative x
        A(z3.ForAll([a, d], z3.Implies(z3.And(a >= 0, d >= 0),
                                       self.testbit(a, d) == ((a / self.pow2(d)) % 2 == 1)),
                    patterns=[self.testbit(a, d)]))
        # Wit(x): trigger-only predicate, true everywhere (see exists()/wit() in the contract language)
        self.Wit = self.func("Wit", Int, Bool)
        A(z3.ForAll([a], self.Wit(a), patterns=[self.Wit(a)]))
        # string theory (minimal)
        self.strlen = z3.Function("strlen", self.Str, Int)
        self.utf8 = z3.Function("utf8", self.Str, self.Bytes.S)
        self.unutf8 = z3.Function("unutf8", self.Bytes.S, self.Str)
        self.valid_utf8 = z3.Function("valid_utf8", self.Bytes.S, Bool)
        self.lower = z3.Function("lower", self.Str, self.Str)
        self.upper = z3.Function("upper", self.Str, self.Str)
        self.is_ascii = z3.Function("is_ascii", self.Str, Bool)
        s = z3.Const("s", self.Str)
        bs = z3.Const("bs", self.Bytes.S)
        A(z3.ForAll([s], z3.And(self.strlen(s) >= 0,
                                self.Bytes.Len(self.utf8(s)) >= self.strlen(s),
                                self.Bytes.Len(self.utf8(s)) <= 4 * self.strlen(s),
                                self.valid_utf8(self.utf8(s)),
                                self.unutf8(self.utf8(s)) == s),
                    patterns=[self.utf8(s)]))
        A(z3.ForAll([bs], z3.Implies(self.valid_utf8(bs), self.utf8(self.unutf8(bs)) == bs),
                    patterns=[self.unutf8(bs)]))
        A(z3.ForAll([s], z3.And(self.lower(self.lower(s)) == self.lower(s),
                                self.lower(self.upper(s)) == self.lower(s)),
                    patterns=[self.lower(s)]))
        A(z3.ForAll([s], z3.And(self.upper(self.upper(s)) == self.upper(s),
                                self.upper(self.lower(s)) == self.upper(s)),
                    patterns=[self.upper(s)]))
        A(z3.ForAll([s], z3.Implies(self.is_ascii(s),
                                    self.Bytes.Len(self.utf8(s)) == self.strlen(s)),
                    patterns=[self.is_ascii(s)]))
        self.strlits: dict[str, z3.ExprRef] = {}

    # ---- sorts -----------------------------------------------------------------
    def seq_of(self, elem: z3.SortRef, name: str | None = None, byte_range=False) -> SeqTheory:
        key = name or ("Seq_" + _sortname(elem))
        if key not in self.seqs:
            th = SeqTheory(key, elem, byte_range=byte_range)
            self.seqs[key] = th
            self.axioms.extend(th.axioms)
        return self.seqs[key]

    def seq_theory_of_sort(self, sort: z3.SortRef) -> SeqTheory | None:
        return self.seqs.get(sort.name())

    def tuple_of(self, sorts: list[z3.SortRef]):
        key = "Tup_" + "_".join(_sortname(s) for s in sorts)
        if key not in self.tuples:
            dt = z3.Datatype(key)
            dt.declare("mk_" + key, *[(f"f{i}_{key}", s) for i, s in enumerate(sorts)])   # sort-specific names, as above
            d = dt.create()
            d.mk = getattr(d, "mk_" + key)
            self.tuples[key] = d
        return self.tuples[key]

    def opt_of(self, sort: z3.SortRef):
        key = "Opt_" + _sortname(sort)
        if key not in self.opts:
            # constructor and accessor names carry the sort: SMT-LIB front ends (z3 CLI, cvc5) reject a bare `none`
            # as ambiguous as soon as a query uses two option sorts
            dt = z3.Datatype(key)
            dt.declare("none_" + key)
            dt.declare("some_" + key, ("val_" + key, sort))
            d = dt.create()
            d.none = getattr(d, "none_" + key)
            d.some = getattr(d, "some_" + key)
            d.is_none = getattr(d, "is_none_" + key)
            d.is_some = getattr(d, "is_some_" + key)
            d.val = getattr(d, "val_" + key)
            self.opts[key] = d
        return self.opts[key]

    def strlit(self, text: str) -> z3.ExprRef:
        if text not in self.strlits:
            # SMT-LIB-safe symbol (z3 prints some quoted names in a form its own parser and cvc5 reject)
            safe = "".join(ch if ch.isalnum() else "_" for ch in text)[:24]
            c = z3.Const("strlit_%d_%s_%s" % (len(self.strlits), safe, text.encode("utf8").hex()[:16]), self.Str)
            for other_text, other in self.strlits.items():
                self.axioms.append(c != other)
            self.strlits[text] = c
            enc = text.encode("utf8")
            B = self.Bytes
            self.axioms.append(self.strlen(c) == len(text))
            self.axioms.append(self.utf8(c) == self.bytes_lit(enc))
            self.axioms.append(self.is_ascii(c) == text.isascii())
            if text == text.lower():
                self.axioms.append(self.lower(c) == c)
            if text == text.upper():
                self.axioms.append(self.upper(c) == c)
        return self.strlits[text]

    def bytes_lit(self, data: bytes) -> z3.ExprRef:
        B = self.Bytes
        key = "bytes!" + data.hex()
        if key not in self.funcs:
            c = z3.Const(key, B.S)
            self.funcs[key] = c
            self.axioms.append(B.Len(c) == len(data))
            for i, v in enumerate(data):
                self.axioms.append(B.Idx(c, i) == v)
            if len(data) == 0:
                self.axioms.append(c == B.Empty)
        return self.funcs[key]

    def func(self, name: str, *sorts) -> z3.FuncDeclRef:
        if name not in self.funcs:
            self.funcs[name] = z3.Function(name, *sorts)
        return self.funcs[name]


def _sortname(s: z3.SortRef) -> str:
    return s.name().replace(" ", "_").replace("(", "_").replace(")", "_")


_PRELUDE: Prelude | None = None


def prelude() -> Prelude:
    global _PRELUDE
    if _PRELUDE is None:
        _PRELUDE = Prelude()
    return _PRELUDE


def reset_prelude() -> None:
    global _PRELUDE
    _PRELUDE = None
