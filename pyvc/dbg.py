"""Developer helper: python3-vt pyvc/dbg.py <unit> <clause-substring> [extra hypothesis spec ...]
Re-runs one unit, picks the obligations whose clause contains the substring, and for each one reports the
verdict; with extra spec hypotheses (evaluated in the obligation's state) it shows which added fact makes it go through."""
import sys, time
sys.path.insert(0, __import__("os").path.dirname(__import__("os").path.dirname(__import__("os").path.abspath(__file__))))
from pyvc.frontend import Repo
from pyvc.contracts import load_sidecars, split_unit
from pyvc.engine import Exec
from pyvc import solve, cex
import z3

def main():
    unit, sub = sys.argv[1], sys.argv[2]
    extra = sys.argv[3:]
    repo = Repo(); reg = load_sidecars(__import__("os").path.join(__import__("os").path.dirname(__import__("os").path.dirname(__import__("os").path.abspath(__file__))), "contracts"))
    ex = Exec(repo, reg, unit)
    base = split_unit(unit)[0]
    if unit in reg.harnesses:
        ex.verify_harness(reg.harnesses[unit])
    elif unit in reg.lemmas:
        ex.verify_lemma(reg.lemmas[unit])
    else:
        mi, ci, fn = repo.find_function(base)
        ex.verify_function(base, reg.contracts[base], mi, ci, fn)
    for ob in ex.obligations:
        if sub not in ob.clause and sub not in ob.site:
            continue
        t0 = time.time()
        if "--smt2" in extra:
            s = solve.make_solver()
            from pyvc.prelude import prelude
            for a in prelude().axioms: s.add(a)
            for f in ex.global_facts: s.add(f)
            for h in ob.hyps: s.add(h)
            s.add(z3.Not(ob.goal))
            fn = "/tmp/dbg_%s.smt2" % ob.state.trace[-1].replace(":", "_") if ob.state and ob.state.trace else "/tmp/dbg.smt2"
            open(fn, "w").write("(set-logic ALL)\n" + s.to_smt2())
            print("    wrote", fn)
            continue
        r = solve.check(ob.hyps, ob.goal, extra=ex.global_facts)
        print(f"[{r.status} {r.time:.2f}s {r.reason}] {ob.clause} :: {ob.site} line {ob.line}\n    {ob.note[:200]}")
        print("    trace:", ob.state.trace[-8:] if ob.state else None)
        if r.status != "unsat":
            if r.model is not None:
                try:
                    print("    cex:", cex.extract_inputs(ex, r.model))
                except Exception as e:
                    print("    cex error", e)
            for h in [x for x in extra if x.startswith("eval:")]:
                v = ex.ev_spec_val(h[5:], ob.state, old=ex.entry_state)
                try:
                    from pyvc.values import box
                    print(f"    {h[5:]} = {r.model.eval(box(v), model_completion=True)}")
                except Exception as e:
                    print("    eval error", h, e)
            joint = [ex.ev_spec(x[4:], ob.state, old=ex.entry_state) for x in extra if x.startswith("all:")]
            if joint:
                rj = solve.check(ob.hyps + joint, ob.goal, extra=ex.global_facts)
                print(f"    with all joint hints: goal {rj.status} ({rj.time:.2f}s)")
            if "--smt2" in extra:
                s = solve.make_solver()
                from pyvc.prelude import prelude
                for a in prelude().axioms: s.add(a)
                for f in ex.global_facts: s.add(f)
                for h in ob.hyps: s.add(h)
                s.add(z3.Not(ob.goal))
                open("/tmp/dbg.smt2", "w").write(s.to_smt2())
                print("    wrote /tmp/dbg.smt2")
            for h in [x for x in extra if not x.startswith(("eval:", "all:", "--"))]:
                hz = ex.ev_spec(h, ob.state, old=ex.entry_state)
                r2 = solve.check(ob.hyps + [hz], ob.goal, extra=ex.global_facts)
                rh = solve.check(ob.hyps, hz, extra=ex.global_facts)
                print(f"    with hint {h!r}: goal {r2.status} ({r2.time:.2f}s); hint itself provable: {rh.status}")

main()
