"""Expression evaluation (mixin of Exec). Expressions never fork the state: raising
operations split off an exceptional state into the current sink and constrain the path;
short-circuit operators evaluate their right operands under a guard."""
from __future__ import annotations

import ast
from contextlib import contextmanager

import z3

from .prelude import prelude
from .state import State
from .ptypes import *  # noqa
from .values import (V, TPy, Unsupported, box, unbox, coerce, fresh, ite, join_types, none_of, some_of,
                     opt_is_none, opt_get, sort_of, theory_of, seq_theory, is_simple, fresh_name)

I = z3.IntVal


def tz(n: int) -> int:
    if n == 0:
        return 10 ** 6
    k = 0
    while n % 2 == 0:
        n //= 2
        k += 1
    return k


class ExprMixin:
    # ------------------------------------------------------------------ helpers
    @contextmanager
    def guard(self, st: State, cond):
        st.guards.append(cond)
        try:
            yield
        finally:
            st.guards.pop()

    def bind(self, st: State, v: V, base="t") -> V:
        """SSA-bind a compound term to a fresh constant (keeps patterns ite-free, terms small)."""
        if isinstance(v.t, TTuple):
            return V(v.t, tuple(self.bind(st, e, base) for e in v.z))
        if isinstance(v.t, (TNone, TPy)) or v.z is None or is_simple(v.z):
            return v
        c = z3.Const(fresh_name(base), v.z.sort())
        st.define(c == v.z)
        return V(v.t, c)

    def truth(self, v: V, st: State):
        t = v.t
        if isinstance(t, TBool):
            return v.z
        if isinstance(t, (TInt, TEnum)):
            return v.z != 0
        if isinstance(t, TReal):
            return v.z != 0
        if isinstance(t, TNone):
            return z3.BoolVal(False)
        if isinstance(t, (TBytes, TSeq)):
            return theory_of(t).Len(v.z) > 0
        if isinstance(t, TList):
            return theory_of(t).Len(self.list_content(st, v)) > 0
        if isinstance(t, TStr):
            return prelude().strlen(v.z) > 0
        if isinstance(t, TTuple):
            return z3.BoolVal(len(t.elts) > 0)
        if isinstance(t, TOpt):
            inner_t = t.inner
            nn = z3.Not(opt_is_none(v))
            if isinstance(inner_t, (TObj, TOpaque)):
                return nn
            return z3.And(nn, self.truth(opt_get(v), st))
        if isinstance(t, (TObj, TOpaque)):
            return z3.BoolVal(True)
        if isinstance(t, TDict):
            return self.dict_size(st, v) > 0
        if isinstance(t, TSet):
            return self.set_size(st, v) > 0
        if isinstance(t, TPy):
            if v.z and v.z[0] == "class_choice":
                return v.z[2]          # a dispatch-table lookup may have found nothing
            return z3.BoolVal(True)
        raise Unsupported(f"truthiness of {t}")

    def need_value(self, v: V, st: State, node, what="operand") -> V:
        """Unwrap an Optional operand; None here is a TypeError in CPython."""
        if isinstance(v.t, TOpt):
            self.may_raise(st, opt_is_none(v), "TypeError", node, f"None used as {what}")
            return opt_get(v)
        if isinstance(v.t, TNone):
            self.may_raise(st, z3.BoolVal(True), "TypeError", node, f"None used as {what}")
            raise DeadPath()
        return v

    def as_int(self, v: V, st, node) -> z3.ArithRef:
        v = self.need_value(v, st, node)
        if isinstance(v.t, TInt) or isinstance(v.t, TEnum):
            return v.z
        if isinstance(v.t, TBool):
            return z3.If(v.z, I(1), I(0))
        raise Unsupported(f"expected int, got {v.t} at {self.src(node)}")

    def is_num(self, t):
        return isinstance(t, (TInt, TBool, TReal, TEnum))

    # ---------------------------------------------------------------- evaluation
    def ev(self, e: ast.expr, st: State) -> V:
        m = getattr(self, "ev_" + type(e).__name__, None)
        if m is None:
            raise Unsupported(f"expression {type(e).__name__}: {self.src(e)}")
        return m(e, st)

    def ev_Constant(self, e, st):
        c = e.value
        P = prelude()
        if isinstance(c, bool):
            return V(BOOL, z3.BoolVal(c))
        if isinstance(c, int):
            return V(INT, I(c))
        if isinstance(c, float):
            return V(REAL, z3.RealVal(repr(c)))
        if c is None:
            return V(NONE, None)
        if isinstance(c, bytes):
            return V(BYTES, P.bytes_lit(c))
        if isinstance(c, str):
            return V(STR, P.strlit(c))
        raise Unsupported(f"constant {c!r}")

    def ev_JoinedStr(self, e, st):
        # f-string: value is an unconstrained string; embedded expressions are evaluated for
        # exception-freedom only when they are in the subset
        for part in e.values:
            if isinstance(part, ast.FormattedValue):
                try:
                    self.ev(part.value, st)
                except Unsupported:
                    self.note_assumption(f"f-string operand not evaluated: {self.src(part.value)}")
        return fresh(STR, "fstr")

    def ev_Name(self, e, st):
        name = e.id
        if name in st.locals:
            return st.locals[name]
        return self.resolve_global(name, st, e)

    def ev_Tuple(self, e, st):
        vals = [self.ev(x, st) for x in e.elts]
        return V(TTuple(tuple(v.t for v in vals)), tuple(vals))

    def ev_List(self, e, st):
        vals = [self.ev(x, st) for x in e.elts]
        if not vals:
            hint = getattr(e, "_elt_hint", None)
            return self.new_list(st, hint or TOpaque("empty"), [])
        t = vals[0].t
        for v in vals[1:]:
            t = join_types(t, v.t)
        return self.new_list(st, t, [coerce(v, t) for v in vals])

    def ev_IfExp(self, e, st):
        c = self.truth(self.ev(e.test, st), st)
        with self.guard(st, c):
            a = self.ev_guarded(e.body, st)
        with self.guard(st, z3.Not(c)):
            b = self.ev_guarded(e.orelse, st)
        if a is None:
            return b
        if b is None:
            return a
        return ite(c, a, b)

    def ev_guarded(self, e, st):
        try:
            return self.ev(e, st)
        except DeadPath:
            return None

    def ev_BoolOp(self, e, st):
        is_and = isinstance(e.op, ast.And)
        vals = []
        conds = []
        first = self.ev(e.values[0], st)
        vals.append(first)
        pushed = 0
        try:
            for nxt in e.values[1:]:
                t = self.truth(vals[-1], st)
                g = t if is_and else z3.Not(t)
                st.guards.append(g)
                pushed += 1
                conds.append(t)
                try:
                    vals.append(self.ev(nxt, st))
                except DeadPath:
                    vals.append(None)
                    break
        finally:
            for _ in range(pushed):
                st.guards.pop()
        # fold from the right
        res = vals[-1]
        for i in range(len(vals) - 2, -1, -1):
            t = conds[i]
            if res is None:
                res = vals[i]
            elif all(isinstance(x.t, TBool) for x in (vals[i], res)):
                res = V(BOOL, z3.And(vals[i].z, res.z) if is_and else z3.Or(vals[i].z, res.z))
            else:
                try:
                    res = ite(t, res, vals[i]) if is_and else ite(t, vals[i], res)
                except Unsupported:
                    # operands of unrelated types (`while queue and queue[0].flag`): only the truth value is meaningful
                    rt = self.truth(res, st)
                    res = V(BOOL, z3.And(t, rt) if is_and else z3.Or(t, rt))
        return res

    def ev_UnaryOp(self, e, st):
        v = self.ev(e.operand, st)
        if isinstance(e.op, ast.Not):
            return V(BOOL, z3.Not(self.truth(v, st)))
        v = self.need_value(v, st, e)
        if isinstance(e.op, ast.USub):
            if isinstance(v.t, TReal):
                return V(REAL, -v.z)
            return V(INT, -self.as_int(v, st, e))
        if isinstance(e.op, ast.UAdd):
            return v
        if isinstance(e.op, ast.Invert):
            return V(INT, -self.as_int(v, st, e) - 1)
        raise Unsupported(self.src(e))

    # ---- arithmetic -------------------------------------------------------------
    def ev_BinOp(self, e, st):
        a = self.ev(e.left, st)
        b = self.ev(e.right, st)
        return self.binop(e.op, a, b, st, e)

    def binop(self, op, a: V, b: V, st, node) -> V:
        P = prelude()
        a = self.need_value(a, st, node)
        b = self.need_value(b, st, node)
        # sequences
        if isinstance(op, ast.Add) and isinstance(a.t, TBytes) and isinstance(b.t, TBytes):
            return V(BYTES, P.Bytes.App(a.z, b.z))
        if isinstance(op, ast.Add) and isinstance(a.t, TStr) and isinstance(b.t, TStr):
            f = P.func("strcat", P.Str, P.Str, P.Str)
            return V(STR, f(a.z, b.z))
        if isinstance(op, ast.Add) and isinstance(a.t, TList) and isinstance(b.t, TList):
            ta = a.t if not isinstance(a.t.elt, TOpaque) else b.t
            th = theory_of(ta)
            return self.new_list_from_seq(st, ta.elt, th.App(self.list_content(st, a), self.list_content(st, b)))
        if isinstance(op, ast.Add) and isinstance(a.t, TSeq) and isinstance(b.t, TSeq):
            return V(a.t, theory_of(a.t).App(a.z, b.z))
        if isinstance(op, ast.Add) and isinstance(a.t, TTuple) and isinstance(b.t, TTuple):
            return V(TTuple(a.t.elts + b.t.elts), a.z + b.z)
        if isinstance(op, ast.Mult) and isinstance(a.t, TBytes) and self.is_num(b.t):
            return self.bytes_repeat(a, b, st, node)
        if isinstance(op, ast.Mult) and isinstance(b.t, TBytes) and self.is_num(a.t):
            return self.bytes_repeat(b, a, st, node)
        if isinstance(op, ast.Mod) and isinstance(a.t, TStr):
            return fresh(STR, "fmt")
        if not (self.is_num(a.t) and self.is_num(b.t)):
            raise Unsupported(f"binary {type(op).__name__} on {a.t}, {b.t}: {self.src(node)}")
        real = isinstance(a.t, TReal) or isinstance(b.t, TReal) or isinstance(op, ast.Div)
        if real and not isinstance(op, (ast.BitAnd, ast.BitOr, ast.BitXor, ast.LShift, ast.RShift)):
            x, y = coerce(a, REAL).z, coerce(b, REAL).z
            if isinstance(op, ast.Add):
                return V(REAL, x + y)
            if isinstance(op, ast.Sub):
                return V(REAL, x - y)
            if isinstance(op, ast.Mult):
                return V(REAL, x * y)
            if isinstance(op, ast.Div):
                self.may_raise(st, y == 0, "ZeroDivisionError", node, "division by zero")
                return V(REAL, x / y)
            if isinstance(op, ast.Pow):
                return self.real_pow(x, y, b, st, node)
            if isinstance(op, ast.FloorDiv):
                self.may_raise(st, y == 0, "ZeroDivisionError", node, "division by zero")
                return V(REAL, z3.ToReal(z3.ToInt(x / y)))
            if isinstance(op, ast.Mod):
                self.may_raise(st, y == 0, "ZeroDivisionError", node, "modulo by zero")
                return V(REAL, x - y * z3.ToReal(z3.ToInt(x / y)))
            raise Unsupported(self.src(node))
        x, y = self.as_int(a, st, node), self.as_int(b, st, node)
        if isinstance(op, ast.Add):
            return V(INT, x + y)
        if isinstance(op, ast.Sub):
            return V(INT, x - y)
        if isinstance(op, ast.Mult):
            return V(INT, x * y)
        if isinstance(op, ast.FloorDiv):
            return V(INT, self.floordiv(x, y, st, node))
        if isinstance(op, ast.Mod):
            return V(INT, self.floormod(x, y, st, node))
        if isinstance(op, ast.Pow):
            if z3.is_int_value(y) and y.as_long() >= 0:
                r = I(1)
                for _ in range(y.as_long()):
                    r = r * x
                return V(INT, z3.simplify(r) if z3.is_int_value(x) else r)
            if z3.is_int_value(x) and x.as_long() == 2:
                self.may_raise(st, y < 0, "Unsupported", node, "negative power")
                return V(INT, P.pow2(y))
            raise Unsupported(self.src(node))
        if isinstance(op, ast.LShift):
            return V(INT, self.shl(x, y, st, node))
        if isinstance(op, ast.RShift):
            return V(INT, self.shr(x, y, st, node))
        if isinstance(op, ast.BitAnd):
            return V(INT, self.bitand(x, y, st, node))
        if isinstance(op, ast.BitOr):
            hints = (self.tz_hint(getattr(node, "left", None)), self.tz_hint(getattr(node, "right", None)))
            return V(INT, self.bitor(x, y, st, hints))
        if isinstance(op, ast.BitXor):
            if z3.is_int_value(x) and z3.is_int_value(y):
                return V(INT, I(x.as_long() ^ y.as_long()))
            return V(INT, P.bxor(x, y))
        raise Unsupported(self.src(node))

    def floordiv(self, x, y, st, node):
        y = self.const_of(y, st)
        if z3.is_int_value(y) and y.as_long() > 0:
            return x / y
        self.may_raise(st, y == 0, "ZeroDivisionError", node, "integer division by zero")
        return z3.If(y > 0, x / y, (-x) / (-y))

    def floormod(self, x, y, st, node):
        y = self.const_of(y, st)
        if z3.is_int_value(y) and y.as_long() > 0:
            return x % y
        self.may_raise(st, y == 0, "ZeroDivisionError", node, "integer modulo by zero")
        return z3.If(y > 0, x % y, -((-x) % (-y)))

    def shl(self, x, y, st, node):
        P = prelude()
        if z3.is_int_value(y):
            k = y.as_long()
            if k < 0:
                self.may_raise(st, z3.BoolVal(True), "ValueError", node, "negative shift count")
                raise DeadPath()
            return x * I(2 ** k)
        self.may_raise(st, y < 0, "ValueError", node, "negative shift count")
        if z3.is_int_value(x) and x.as_long() == 1:
            return P.pow2(y)
        return x * P.pow2(y)

    def shr(self, x, y, st, node):
        P = prelude()
        if z3.is_int_value(y):
            k = y.as_long()
            if k < 0:
                self.may_raise(st, z3.BoolVal(True), "ValueError", node, "negative shift count")
                raise DeadPath()
            return x / I(2 ** k)
        self.may_raise(st, y < 0, "ValueError", node, "negative shift count")
        return x / P.pow2(y)

    def mask_const(self, x, c: int):
        """x & c for a non-negative constant c: sum over maximal runs of ones (floor semantics,
        valid for all Python ints)."""
        if c == 0:
            return I(0)
        terms = []
        bit = 0
        while (c >> bit) != 0:
            if (c >> bit) & 1:
                lo = bit
                while (c >> bit) & 1:
                    bit += 1
                hi = bit
                t = x if lo == 0 else x / I(2 ** lo)
                t = t % I(2 ** (hi - lo))
                if lo:
                    t = t * I(2 ** lo)
                terms.append(t)
            else:
                bit += 1
        r = terms[0]
        for t in terms[1:]:
            r = r + t
        return r

    def bitand(self, x, y, st, node):
        P = prelude()
        x, y = self.const_of(x, st), self.const_of(y, st)
        if z3.is_int_value(x) and z3.is_int_value(y):
            return I(x.as_long() & y.as_long())
        if z3.is_int_value(y) and y.as_long() >= 0:
            return self.mask_const(x, y.as_long())
        if z3.is_int_value(x) and x.as_long() >= 0:
            return self.mask_const(y, x.as_long())
        return P.band(x, y)

    def tz_hint(self, node) -> int:
        """Number of low zero bits known syntactically (hint only; the fact added is guarded)."""
        if node is None:
            return 0
        if isinstance(node, ast.Constant) and isinstance(node.value, int) and not isinstance(node.value, bool):
            return tz(node.value)
        if isinstance(node, ast.BinOp):
            if isinstance(node.op, ast.LShift) and isinstance(node.right, ast.Constant):
                return node.right.value + self.tz_hint(node.left) if isinstance(node.right.value, int) else 0
            if isinstance(node.op, (ast.BitOr, ast.Add)):
                return min(self.tz_hint(node.left), self.tz_hint(node.right))
            if isinstance(node.op, ast.BitAnd):
                return max(self.tz_hint(node.left), self.tz_hint(node.right))
        if isinstance(node, ast.IfExp):
            return min(self.tz_hint(node.body), self.tz_hint(node.orelse))
        return 0

    def bitor(self, x, y, st, hints=(0, 0)):
        P = prelude()
        if z3.is_int_value(x) and z3.is_int_value(y):
            return I(x.as_long() | y.as_long())
        if z3.is_int_value(y) and y.as_long() == 0:
            return x
        if z3.is_int_value(x) and x.as_long() == 0:
            return y
        r = P.bor(x, y)
        # one operand is a non-negative constant c: the other one either lies entirely above c's highest bit or
        # entirely below c's lowest set bit -> the bits are disjoint and a | c == a + c (guarded, hence sound;
        # the disjoint-or lemma is BV-certified in the self-test)
        for a, cst in ((x, y), (y, x)):
            if z3.is_int_value(cst) and cst.as_long() > 0:
                c = cst.as_long()
                hi = I(2 ** c.bit_length())
                lo = I(2 ** tz(c))
                st.pc.append(z3.Implies(z3.And(a >= 0, a % hi == 0), r == a + cst))
                st.pc.append(z3.Implies(z3.And(a >= 0, a < lo), r == a + cst))
        ks = set()
        if not z3.is_int_value(x) and not z3.is_int_value(y):
            # both operands symbolic: guarded disjoint-or instances for the byte-level split points
            ks.update((1, 2, 3, 4, 5, 6, 7, 8, 16))
        for h in hints:
            if 0 < h < 200:
                ks.add(h)
        for k in sorted(ks):
            m = I(2 ** k)
            # disjoint-or lemma instance (BV-certified in selftest): guarded, hence sound
            st.pc.append(z3.Implies(z3.And(x >= 0, x % m == 0, y >= 0, y < m), r == x + y))
            st.pc.append(z3.Implies(z3.And(y >= 0, y % m == 0, x >= 0, x < m), r == x + y))
        return r

    def bytes_repeat(self, s: V, n: V, st, node):
        P = prelude()
        B = P.Bytes
        cnt = self.as_int(n, st, node)
        cnt = z3.If(cnt < 0, I(0), cnt)
        # only single-byte patterns are supported (b"\x00" * n)
        name = str(s.z)
        if not (name.startswith("bytes!") and len(name) == len("bytes!") + 2):
            raise Unsupported("bytes repetition of a non single-byte literal")
        return V(BYTES, B.Rep(I(int(name[6:], 16)), cnt))

    def real_pow(self, x, y, yv, st, node):
        P = prelude()
        if z3.is_rational_value(y) or z3.is_int_value(y):
            try:
                k = int(str(y))
                if 0 <= k <= 4:
                    r = z3.RealVal(1)
                    for _ in range(k):
                        r = r * x
                    return V(REAL, r)
            except ValueError:
                pass
        f = P.func("powr", z3.RealSort(), z3.RealSort(), z3.RealSort())
        key = "powr.axioms"
        if key not in P.funcs:
            P.funcs[key] = True
            a, b = z3.Reals("a b")
            P.axioms.append(z3.ForAll([a, b], z3.Implies(a > 0, f(a, b) > 0), patterns=[f(a, b)]))
            P.axioms.append(z3.ForAll([a, b], z3.Implies(z3.And(a >= 1, b >= 0), f(a, b) >= 1), patterns=[f(a, b)]))
        return V(REAL, f(x, y))

    # ---- comparisons ------------------------------------------------------------
    def ev_Compare(self, e, st):
        left = self.ev(e.left, st)
        parts = []
        pushed = 0
        try:
            for op, rn in zip(e.ops, e.comparators):
                right = self.ev(rn, st)
                c = self.compare(op, left, right, st, e)
                parts.append(c)
                st.guards.append(c)   # chained comparison short-circuits
                pushed += 1
                left = right
        finally:
            for _ in range(pushed):
                st.guards.pop()
        return V(BOOL, parts[0] if len(parts) == 1 else z3.And(*parts))

    def compare(self, op, a: V, b: V, st, node):
        if isinstance(op, (ast.Is, ast.IsNot)):
            r = self.identical(a, b, st, node)
            return r if isinstance(op, ast.Is) else z3.Not(r)
        if isinstance(op, (ast.Eq, ast.NotEq)):
            r = self.equal(a, b, st, node)
            return r if isinstance(op, ast.Eq) else z3.Not(r)
        if isinstance(op, (ast.In, ast.NotIn)):
            r = self.contains(b, a, st, node)
            return r if isinstance(op, ast.In) else z3.Not(r)
        a = self.need_value(a, st, node, "comparison operand")
        b = self.need_value(b, st, node, "comparison operand")
        if self.is_num(a.t) and self.is_num(b.t):
            if isinstance(a.t, TReal) or isinstance(b.t, TReal):
                x, y = coerce(a, REAL).z, coerce(b, REAL).z
            else:
                x, y = self.as_int(a, st, node), self.as_int(b, st, node)
            if isinstance(op, ast.Lt):
                return x < y
            if isinstance(op, ast.LtE):
                return x <= y
            if isinstance(op, ast.Gt):
                return x > y
            if isinstance(op, ast.GtE):
                return x >= y
        raise Unsupported(f"comparison {type(op).__name__} on {a.t}, {b.t}: {self.src(node)}")

    def identical(self, a: V, b: V, st, node):
        if isinstance(b.t, TNone):
            a, b = b, a
        if isinstance(a.t, TNone):
            if isinstance(b.t, TNone):
                return z3.BoolVal(True)
            if isinstance(b.t, TOpt):
                return opt_is_none(b)
            if isinstance(b.t, TOpaque):
                return b.z == prelude().null
            return z3.BoolVal(False)
        if isinstance(a.t, TBool) and isinstance(b.t, TBool):
            return a.z == b.z
        ra = is_ref_type(a.t) or (isinstance(a.t, TOpt) and is_ref_type(a.t.inner))
        rb = is_ref_type(b.t) or (isinstance(b.t, TOpt) and is_ref_type(b.t.inner))
        if ra and rb:
            return a.z == b.z
        if isinstance(a.t, TEnum) and isinstance(b.t, TEnum):
            return a.z == b.z
        raise Unsupported(f"'is' on {a.t}, {b.t}: {self.src(node)}")

    def equal(self, a: V, b: V, st, node):
        """Python == (structural for values, identity for plain objects without __eq__)."""
        P = prelude()
        ta, tb = a.t, b.t
        if isinstance(ta, TNone) or isinstance(tb, TNone):
            return self.identical(a, b, st, node)
        if isinstance(ta, TOpt) or isinstance(tb, TOpt):
            # None == x is False; some(x) == some(y) iff x == y
            if isinstance(ta, TOpt) and isinstance(tb, TOpt):
                na, nb = opt_is_none(a), opt_is_none(b)
                inner = self.equal(opt_get(a), opt_get(b), st, node)
                return z3.Or(z3.And(na, nb), z3.And(z3.Not(na), z3.Not(nb), inner))
            if isinstance(ta, TOpt):
                return z3.And(z3.Not(opt_is_none(a)), self.equal(opt_get(a), b, st, node))
            return z3.And(z3.Not(opt_is_none(b)), self.equal(a, opt_get(b), st, node))
        if self.is_num(ta) and self.is_num(tb):
            if isinstance(ta, TReal) or isinstance(tb, TReal):
                return coerce(a, REAL).z == coerce(b, REAL).z
            if isinstance(ta, TBool) and isinstance(tb, TBool):
                return a.z == b.z
            return coerce(a, INT).z == coerce(b, INT).z if not isinstance(ta, TEnum) else a.z == b.z
        if isinstance(ta, (TBytes,)) and isinstance(tb, TBytes):
            return P.Bytes.Eq(a.z, b.z)
        if isinstance(ta, TSeq) and isinstance(tb, TSeq):
            return self.seq_equal(ta, a.z, tb, b.z, st, node)
        if isinstance(ta, TList) and isinstance(tb, TList):
            return self.seq_equal(ta, self.list_content(st, a), tb, self.list_content(st, b), st, node)
        if isinstance(ta, TStr) and isinstance(tb, TStr):
            return a.z == b.z
        if isinstance(ta, TTuple) and isinstance(tb, TTuple):
            if len(ta.elts) != len(tb.elts):
                return z3.BoolVal(False)
            return z3.And(*[self.equal(x, y, st, node) for x, y in zip(a.z, b.z)]) if ta.elts else z3.BoolVal(True)
        if isinstance(ta, TObj) and isinstance(tb, TObj):
            return self.object_equal(a, b, st, node)
        if isinstance(ta, TOpaque) or isinstance(tb, TOpaque):
            if is_ref_type(ta) and is_ref_type(tb):
                return a.z == b.z
        if type(ta) != type(tb):
            # values of unrelated types are never equal in the subset (int vs str, bytes vs str ...)
            return z3.BoolVal(False)
        raise Unsupported(f"== on {ta}, {tb}: {self.src(node)}")

    def seq_equal(self, ta, za, tb, zb, st, node):
        th = theory_of(ta)
        elt = ta.elt
        if isinstance(elt, TOpaque) and not isinstance(tb.elt, TOpaque):
            th, elt = theory_of(tb), tb.elt
        if isinstance(elt, (TInt, TBool, TStr, TEnum, TReal)) or (isinstance(elt, TObj) and not self.class_has_value_eq(elt.cls)):
            return th.Eq(za, zb)
        # element-wise deep equality
        k = z3.Int(fresh_name("k"))
        ea = unbox(th.Idx(za, k), elt)
        eb = unbox(th.Idx(zb, k), elt)
        body = self.equal(ea, eb, st, node)
        return z3.And(th.Len(za) == th.Len(zb),
                      z3.ForAll([k], z3.Implies(z3.And(0 <= k, k < th.Len(za)), body),
                                patterns=[th.Idx(za, k), th.Idx(zb, k)]))

    # ---- containers ---------------------------------------------------------------
    def contains(self, container: V, item: V, st, node):
        P = prelude()
        t = container.t
        if isinstance(t, TPy) and container.z[0] == "range":
            _, lo, hi, step = container.z
            x = self.as_int(item, st, node)
            if not (z3.is_int_value(step) and step.as_long() == 1):
                raise Unsupported("membership in stepped range")
            return z3.And(lo <= x, x < hi)
        if isinstance(t, TPy) and container.z[0] == "keytable":
            keys = container.z[1]
            item = self.need_value(item, st, node, "key")
            outs = []
            for kv in keys:
                if isinstance(kv, str) and isinstance(item.t, TStr):
                    outs.append(item.z == prelude().strlit(kv))
                elif isinstance(kv, int) and isinstance(item.t, TInt):
                    outs.append(item.z == kv)
            return z3.Or(*outs) if outs else z3.BoolVal(False)
        if isinstance(t, TTuple):
            if not t.elts:
                return z3.BoolVal(False)
            return z3.Or(*[self.equal(item, el, st, node) for el in container.z])
        if isinstance(t, TList) and getattr(container, "_lit", None) is not None:
            return z3.Or(*[self.equal(item, el, st, node) for el in container._lit])
        if isinstance(t, (TList, TSeq, TBytes)):
            th = theory_of(t)
            seq = self.list_content(st, container) if isinstance(t, TList) else container.z
            elt = INT if isinstance(t, TBytes) else t.elt
            k = z3.Int(fresh_name("k"))
            body = self.equal(unbox(th.Idx(seq, k), elt), item, st, node)
            return z3.Exists([k], z3.And(0 <= k, k < th.Len(seq), body))
        if isinstance(t, (TDict, TSet)):
            kt = t.key if isinstance(t, TDict) else t.elt
            has = self.dict_has if isinstance(t, TDict) else self.set_has
            if isinstance(item.t, TOpt) and not isinstance(kt, (TOpt, TOpaque)):
                # None is never a member of a container whose declared key type excludes it
                return z3.And(z3.Not(opt_is_none(item)), has(st, container, coerce(opt_get(item), kt)))
            if isinstance(item.t, TNone) and not isinstance(kt, (TOpt, TOpaque)):
                return z3.BoolVal(False)
            return has(st, container, coerce(item, kt))
        raise Unsupported(f"'in' on {t}: {self.src(node)}")

    def ev_Subscript(self, e, st):
        base = self.ev(e.value, st)
        base = self.need_value(base, st, e, "subscripted value")
        if isinstance(e.slice, ast.Slice):
            return self.slice_of(base, e.slice, st, e)
        idx = self.ev(e.slice, st)
        return self.index_of(base, idx, st, e)

    def seq_term(self, base: V, st):
        if isinstance(base.t, TList):
            return self.list_content(st, base)
        return base.z

    def norm_index(self, i, n, st, node, what="index"):
        """Python index normalisation + IndexError obligation."""
        if z3.is_int_value(i) and i.as_long() >= 0:
            self.may_raise(st, i >= n, "IndexError", node, f"{what} out of range")
            return i
        if z3.is_int_value(i):
            self.may_raise(st, -i > n, "IndexError", node, f"{what} out of range")
            return n + i
        if self.spec_mode:
            return i   # contract expressions: mathematical indexing, no negative wrap-around
        self.may_raise(st, z3.Or(i >= n, i < -n), "IndexError", node, f"{what} out of range")
        return z3.If(i < 0, i + n, i)

    def index_of(self, base: V, idx: V, st, node):
        t = base.t
        if isinstance(t, TTuple):
            iz = z3.simplify(self.as_int(idx, st, node))
            if not z3.is_int_value(iz):
                raise Unsupported(f"non-constant tuple index {self.src(node)}")
            k = iz.as_long()
            if not (-len(t.elts) <= k < len(t.elts)):
                self.may_raise(st, z3.BoolVal(True), "IndexError", node, "tuple index out of range")
                raise DeadPath()
            return base.z[k]
        if isinstance(t, (TBytes, TSeq, TList)):
            th = theory_of(t)
            seq = self.seq_term(base, st)
            i = self.norm_index(self.as_int(idx, st, node), th.Len(seq), st, node)
            elt = INT if isinstance(t, TBytes) else t.elt
            item = unbox(th.Idx(seq, i), elt)
            et = elt.inner if isinstance(elt, TOpt) else elt
            if is_ref_type(et) and not isinstance(et, TOpaque):
                # heap well-formedness: what a list holds is an allocated object (or None), so an object created
                # later cannot alias it; quantified when the index mentions bound variables
                from .heap import _occurs
                al = self.alloc_map(st)
                fact = z3.Implies(z3.And(0 <= i, i < th.Len(seq)),
                                  z3.Or(item.z == prelude().null, z3.Select(al, item.z)) if isinstance(elt, TOpt)
                                  else z3.And(item.z != prelude().null, z3.Select(al, item.z)))
                used = [b for b in self.bound_vars if _occurs(b, item.z)]
                if used:
                    fact = z3.ForAll(used, fact, patterns=[item.z])
                if self.spec_mode:
                    if self._spec_facts is not None:
                        self._spec_facts.append(z3.Implies(z3.And(*st.guards), fact) if st.guards else fact)
                else:
                    st.pc.append(z3.Implies(z3.And(*st.guards), fact) if st.guards else fact)
            return item
        if isinstance(t, TDict):
            if isinstance(idx.t, TOpt) and not isinstance(t.key, (TOpt, TOpaque)):
                # None is not a key of a dict whose declared key type excludes it: KeyError in the code,
                # silently unwrapped in contract expressions (which guard it)
                self.may_raise(st, opt_is_none(idx), "KeyError", node, "None is not a key")
                idx = opt_get(idx)
            k = coerce(idx, t.key)
            self.may_raise(st, z3.Not(self.dict_has(st, base, k)), "KeyError", node, "missing key")
            return self.dict_get(st, base, k)
        raise Unsupported(f"subscript on {t}: {self.src(node)}")

    def clamp_slice(self, lo, hi, n):
        """Python slice clamping for step 1. lo/hi are z3 ints or None."""
        def norm(x, default):
            if x is None:
                return default
            if z3.is_int_value(x):
                c = x.as_long()
                if c >= 0:
                    return z3.If(x > n, n, x) if c > 0 else I(0)
                return z3.If(n + x < 0, I(0), n + x)
            return z3.If(x < 0, z3.If(n + x < 0, I(0), n + x), z3.If(x > n, n, x))
        l = norm(lo, I(0))
        h = norm(hi, n)
        h2 = z3.If(h < l, l, h)
        return z3.simplify(l), z3.simplify(h2)

    def slice_of(self, base: V, sl: ast.Slice, st, node):
        if sl.step is not None:
            raise Unsupported("slice step")
        t = base.t
        lo = self.as_int(self.ev(sl.lower, st), st, node) if sl.lower is not None else None
        hi = self.as_int(self.ev(sl.upper, st), st, node) if sl.upper is not None else None
        if isinstance(t, TTuple):
            lz = z3.simplify(lo).as_long() if lo is not None else None
            hz = z3.simplify(hi).as_long() if hi is not None else None
            items = base.z[lz:hz]
            return V(TTuple(tuple(x.t for x in items)), tuple(items))
        if isinstance(t, (TBytes, TSeq, TList)):
            th = theory_of(t)
            seq = self.seq_term(base, st)
            l, h = self.clamp_slice(lo, hi, th.Len(seq))
            r = th.Slice(seq, l, h)
            if isinstance(t, TList):
                return self.new_list_from_seq(st, t.elt, r)
            return V(t, r)
        raise Unsupported(f"slice of {t}")

    def ev_Attribute(self, e, st):
        base = self.ev(e.value, st)
        return self.getattr_of(base, e.attr, st, e)

    def ev_Lambda(self, e, st):
        return V(TPy("lambda"), ("lambda", e, dict(st.locals), self.ctx[-1]))

    def ev_ListComp(self, e, st):
        return self.comprehension(e, st, as_list=True)

    def ev_GeneratorExp(self, e, st):
        return self.comprehension(e, st, as_list=False)

    def ev_Call(self, e, st):
        return self.call_expr(e, st)

    def ev_Await(self, e, st):
        self._awaiting = getattr(self, "_awaiting", 0) + 1
        try:
            return self.ev(e.value, st)
        finally:
            self._awaiting -= 1

    def ev_Starred(self, e, st):
        raise Unsupported("starred expression")

    def ev_Dict(self, e, st):
        if e.keys:
            raise Unsupported("non-empty dict literal")
        hint = getattr(e, "_hint", None)
        return self.new_dict(st, hint or TDict(TOpaque("k"), TOpaque("v")))

    def ev_Set(self, e, st):
        raise Unsupported("set literal")


class DeadPath(Exception):
    """The current path is infeasible/ended by an unconditional raise inside an expression."""
