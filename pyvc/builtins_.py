"""Builtin functions, container/bytes/str methods and external library calls (mixin of Exec)."""
from __future__ import annotations

import ast

import z3

from .prelude import prelude, Int, Bool
from .state import State
from .ptypes import *  # noqa
from .values import (V, TPy, Unsupported, box, unbox, coerce, fresh, ite, join_types, none_of, some_of,
                     opt_is_none, opt_get, sort_of, theory_of, seq_theory, is_simple, fresh_name)
from .expr import DeadPath, I

EXC_BUILTINS = {"ValueError", "TypeError", "KeyError", "IndexError", "AssertionError", "Exception",
                "ConnectionError", "StopIteration", "NotImplementedError", "RuntimeError", "AttributeError",
                "ZeroDivisionError", "UnicodeDecodeError", "OSError"}


class BuiltinMixin:
    def call_builtin(self, name, args, kwargs, st, node) -> V:
        P = prelude()
        B = P.Bytes
        if name in EXC_BUILTINS:
            return V(TPy("exc"), ("exc", name))
        if name == "len":
            v = self.need_value(args[0], st, node, "len() argument")
            if isinstance(v.t, (TBytes, TSeq)):
                return V(INT, theory_of(v.t).Len(v.z))
            if isinstance(v.t, TList):
                if isinstance(v.t.elt, TOpaque) and v.t.elt.name == "empty":
                    return V(INT, I(0))
                return V(INT, theory_of(v.t).Len(self.list_content(st, v)))
            if isinstance(v.t, TTuple):
                return V(INT, I(len(v.t.elts)))
            if isinstance(v.t, TStr):
                return V(INT, P.strlen(v.z))
            if isinstance(v.t, TDict):
                return V(INT, self.dict_size(st, v))
            if isinstance(v.t, TSet):
                return V(INT, self.set_size(st, v))
            raise Unsupported(f"len of {v.t}")
        if name == "super" and not args:
            selfv = st.locals.get("self")
            ci = self.ctx[-1][1]
            if selfv is None or ci is None:
                raise Unsupported("super() outside a method")
            return V(TPy("super"), ("super", selfv, ci))
        if name == "pow" and len(args) == 2:
            return self.binop(ast.Pow(), args[0], args[1], st, node)
        if name in ("min", "max"):
            if len(args) == 1:
                raise Unsupported(f"{name} of an iterable")
            vals = [self.need_value(a, st, node) for a in args]
            r = vals[0]
            for v in vals[1:]:
                real = isinstance(r.t, TReal) or isinstance(v.t, TReal)
                if real:
                    x, y = coerce(r, REAL).z, coerce(v, REAL).z
                else:
                    x, y = self.as_int(r, st, node), self.as_int(v, st, node)
                if real and not (isinstance(r.t, TReal) and isinstance(v.t, TReal)):
                    # python keeps the operand's own type; the subset only needs the numeric value
                    pass
                c = (y < x) if name == "min" else (y > x)
                r = V(REAL if real else INT, z3.If(c, y, x))
            return r
        if name == "abs":
            v = self.need_value(args[0], st, node)
            if isinstance(v.t, TReal):
                return V(REAL, z3.If(v.z < 0, -v.z, v.z))
            x = self.as_int(v, st, node)
            return V(INT, z3.If(x < 0, -x, x))
        if name == "int":
            if not args:
                return V(INT, I(0))
            v = self.need_value(args[0], st, node, "int() argument")
            if isinstance(v.t, (TInt, TBool, TEnum)):
                return V(INT, self.as_int(v, st, node))
            if isinstance(v.t, TReal):
                # truncation toward zero
                fl = z3.ToInt(v.z)
                return V(INT, z3.If(v.z >= 0, fl, z3.If(z3.ToReal(fl) == v.z, fl, fl + 1)))
            if isinstance(v.t, (TStr, TBytes)):
                flag = z3.Bool(fresh_name("int_parse_fails"))
                self.may_raise(st, flag, "ValueError", node, "invalid literal for int()")
                return fresh(INT, "parsed")
            raise Unsupported(f"int({v.t})")
        if name == "float":
            v = self.need_value(args[0], st, node)
            if self.is_num(v.t):
                return coerce(v, REAL)
            raise Unsupported(f"float({v.t})")
        if name == "bool":
            return V(BOOL, self.truth(args[0], st)) if args else V(BOOL, z3.BoolVal(False))
        if name == "round":
            v = self.need_value(args[0], st, node)
            if len(args) > 1:
                raise Unsupported("round with ndigits")
            if isinstance(v.t, (TInt, TBool)):
                return V(INT, self.as_int(v, st, node))
            return V(INT, self.round_half_even(v.z))
        if name == "range":
            vals = [self.as_int(a, st, node) for a in args]
            if len(vals) == 1:
                lo, hi, step = I(0), vals[0], I(1)
            elif len(vals) == 2:
                lo, hi, step = vals[0], vals[1], I(1)
            else:
                lo, hi, step = vals
            return V(TPy("range"), ("range", lo, hi, z3.simplify(step)))
        if name == "enumerate":
            start = self.as_int(args[1], st, node) if len(args) > 1 else (
                self.as_int(kwargs["start"], st, node) if "start" in kwargs else I(0))
            return V(TPy("enumerate"), ("enumerate", args[0], start))
        if name == "bytes":
            if not args:
                return V(BYTES, B.Empty)
            v = self.need_value(args[0], st, node, "bytes() argument")
            if isinstance(v.t, TBytes):
                return v
            if isinstance(v.t, TObj):
                ci = self.class_info(v.t.cls)
                m = self.repo.lookup_method(ci, "__bytes__")
                if m is None:
                    raise Unsupported(f"bytes() of {v.t.cls} without __bytes__")
                return self.dispatch_method(st, v, "__bytes__", [], {}, node)
            if isinstance(v.t, TList):
                lit = getattr(v, "_lit", None)
                th = theory_of(v.t)
                seq = self.list_content(st, v)
                if not isinstance(v.t.elt, (TInt, TBool)):
                    raise Unsupported(f"bytes() of {v.t}")
                k = z3.Int(fresh_name("k"))
                bad = z3.Exists([k], z3.And(0 <= k, k < th.Len(seq), z3.Or(th.Idx(seq, k) < 0, th.Idx(seq, k) > 255)))
                self.may_raise(st, bad, "ValueError", node, "bytes must be in range(0, 256)")
                r = z3.Const(fresh_name("bytes"), B.S)
                st.pc.append(B.Len(r) == th.Len(seq))
                st.pc.append(z3.ForAll([k], z3.Implies(z3.And(0 <= k, k < th.Len(seq)), B.Idx(r, k) == th.Idx(seq, k)),
                                       patterns=[B.Idx(r, k)]))
                return V(BYTES, r)
            if isinstance(v.t, (TInt, TBool)):
                n = self.as_int(v, st, node)
                self.may_raise(st, n < 0, "ValueError", node, "negative count")
                return V(BYTES, B.Rep(I(0), n))
            raise Unsupported(f"bytes({v.t})")
        if name in ("list", "tuple"):
            if not args:
                return self.new_list(st, TOpaque("empty"), []) if name == "list" else V(TTuple(()), ())
            v = self.need_value(args[0], st, node)
            if isinstance(v.t, TTuple):
                if name == "tuple":
                    return v
                if not v.t.elts:
                    return self.new_list(st, TOpaque("empty"), [])
                t = v.t.elts[0]
                for e in v.t.elts[1:]:
                    t = join_types(t, e)
                return self.new_list(st, t, [coerce(x, t) for x in v.z])
            th, seq, elt, post = self.iter_sequence(v, st, node)
            if post is not None:
                raise Unsupported("list() of a decorated iterator")
            if name == "list":
                return self.new_list_from_seq(st, elt, seq)
            return V(TSeq(elt), seq)
        if name == "sorted":
            return self.sorted_of(args, kwargs, st, node)
        if name == "set":
            if not args:
                hint = getattr(node, "_hint", None)
                if hint is None:
                    # element type fixed by the first use (dict.get default, assignment to a declared local/field)
                    v = V(TSet(TOpaque("empty")), self.new_ref(st, "set"))
                    return v
                return self.new_set(st, hint)
            v = self.need_value(args[0], st, node)
            th, seq, elt, post = self.iter_sequence(v, st, node)
            s = self.new_set(st, TSet(elt))
            k = z3.Int(fresh_name("k"))
            x = z3.Const(fresh_name("x"), sort_of(elt))
            dom = z3.Const(fresh_name("setdom"), z3.ArraySort(sort_of(elt), Bool))
            st.pc.append(z3.ForAll([k], z3.Implies(z3.And(0 <= k, k < th.Len(seq)), z3.Select(dom, th.Idx(seq, k))),
                                   patterns=[th.Idx(seq, k)]))
            st.pc.append(z3.ForAll([x], z3.Implies(z3.Select(dom, x),
                                                   z3.Exists([k], z3.And(0 <= k, k < th.Len(seq), th.Idx(seq, k) == x))),
                                   patterns=[z3.Select(dom, x)]))
            self.set_write(st, s, dom)
            return s
        if name == "next":
            return self.builtin_next(args, st, node)
        if name == "filter":
            return V(TPy("filter"), ("filter", args[0], args[1]))
        if name == "any" or name == "all":
            raise Unsupported(f"{name}() over a generator")
        if name == "str":
            return fresh(STR, "str")
        if name == "repr":
            return fresh(STR, "repr")
        if name == "print":
            return V(NONE, None)
        if name == "getattr":
            raise Unsupported("getattr")
        if name == "divmod":
            x, y = self.as_int(args[0], st, node), self.as_int(args[1], st, node)
            return V(TTuple((INT, INT)), (V(INT, self.floordiv(x, y, st, node)), V(INT, self.floormod(x, y, st, node))))
        if name == "sum":
            raise Unsupported("sum()")
        raise Unsupported(f"builtin {name}: {self.src(node)}")

    def round_half_even(self, x):
        fl = z3.ToInt(x)
        frac = x - z3.ToReal(fl)
        return z3.If(frac < 0.5, fl, z3.If(frac > 0.5, fl + 1, z3.If(fl % 2 == 0, fl, fl + 1)))

    def builtin_next(self, args, st, node):
        it = args[0]
        if isinstance(it.t, TPy) and it.z[0] == "filter":
            _, pred, src = it.z
            th, seq, elt, post = self.iter_sequence(src, st, node)
            # first element satisfying pred, else default
            j = z3.Int(fresh_name("first"))
            k = z3.Int(fresh_name("k"))

            def holds(idx):
                item = unbox(th.Idx(seq, idx), elt)
                return self.truth(self.apply(pred, [item], {}, st, node), st)
            found = z3.Bool(fresh_name("found"))
            st.pc.append(z3.Implies(found, z3.And(0 <= j, j < th.Len(seq), holds(j),
                                                  z3.ForAll([k], z3.Implies(z3.And(0 <= k, k < j), z3.Not(holds(k))),
                                                            patterns=[th.Idx(seq, k)]))))
            st.pc.append(z3.Implies(z3.Not(found),
                                    z3.ForAll([k], z3.Implies(z3.And(0 <= k, k < th.Len(seq)), z3.Not(holds(k))),
                                              patterns=[th.Idx(seq, k)])))
            item = unbox(th.Idx(seq, j), elt)
            if len(args) > 1:
                return ite(found, item, args[1])
            self.may_raise(st, z3.Not(found), "StopIteration", node, "next() on exhausted iterator")
            return item
        if isinstance(it.t, TPy) and it.z[0] == "iterator":
            return self.iterator_next(it, args[1] if len(args) > 1 else None, st, node)
        if isinstance(it.t, TObj) and it.t.cls == "$Iterator":
            return self.iterator_next(it, args[1] if len(args) > 1 else None, st, node)
        raise Unsupported(f"next() of {it.t}")

    def sorted_of(self, args, kwargs, st, node):
        """sorted(xs) over ints: a permutation of xs in ascending numeric order."""
        v = self.need_value(args[0], st, node)
        if kwargs:
            raise Unsupported("sorted with key/reverse")
        if isinstance(v.t, TSet):
            elt = v.t.elt
            if not isinstance(elt, TInt):
                raise Unsupported("sorted of non-int set")
            th = seq_theory(INT)
            r = z3.Const(fresh_name("sorted"), th.S)
            dom = self.set_dom(st, v)
            k, j = z3.Ints(fresh_name("k") + " " + fresh_name("j"))
            x = z3.Int(fresh_name("x"))
            inv = prelude().func("sortedidx!" + fresh_name("f"), th.S, Int, Int)
            st.pc.append(th.Len(r) == self.set_size(st, v))
            st.pc.append(z3.ForAll([k], z3.Implies(z3.And(0 <= k, k < th.Len(r)), z3.Select(dom, th.Idx(r, k))),
                                   patterns=[th.Idx(r, k)]))
            st.pc.append(z3.ForAll([k, j], z3.Implies(z3.And(0 <= k, k < j, j < th.Len(r)), th.Idx(r, k) < th.Idx(r, j)),
                                   patterns=[z3.MultiPattern(th.Idx(r, k), th.Idx(r, j))]))
            st.pc.append(z3.ForAll([x], z3.Implies(z3.Select(dom, x),
                                                   z3.And(0 <= inv(r, x), inv(r, x) < th.Len(r), th.Idx(r, inv(r, x)) == x)),
                                   patterns=[z3.Select(dom, x)]))
            return self.new_list_from_seq(st, INT, r)
        th, seq, elt, post = self.iter_sequence(v, st, node)
        if not isinstance(elt, TInt):
            raise Unsupported("sorted of non-int sequence")
        r = z3.Const(fresh_name("sorted"), th.S)
        k, j = z3.Ints(fresh_name("k") + " " + fresh_name("j"))
        perm = prelude().func("perm!" + fresh_name("f"), Int, Int)
        st.pc.append(th.Len(r) == th.Len(seq))
        st.pc.append(z3.ForAll([k, j], z3.Implies(z3.And(0 <= k, k < j, j < th.Len(r)), th.Idx(r, k) <= th.Idx(r, j)),
                               patterns=[z3.MultiPattern(th.Idx(r, k), th.Idx(r, j))]))
        st.pc.append(z3.ForAll([k], z3.Implies(z3.And(0 <= k, k < th.Len(r)),
                                               z3.And(0 <= perm(k), perm(k) < th.Len(seq), th.Idx(r, k) == th.Idx(seq, perm(k)))),
                               patterns=[th.Idx(r, k)]))
        return self.new_list_from_seq(st, INT, r)

    # ---------------------------------------------------------------- externs (struct, math, os, time ...)
    def call_extern(self, mod, name, args, kwargs, st, node) -> V:
        P = prelude()
        B = P.Bytes
        full = f"{mod}.{name}"
        if full in ("struct.pack", "struct.unpack", "struct.unpack_from"):
            fmt = self.const_str(node.args[0], st)
            if name == "pack":
                return self.struct_pack(fmt, args[1:], st, node)
            if name == "unpack":
                return self.struct_unpack(fmt, args[1], None, st, node, exact=True)
            off = self.as_int(args[2], st, node) if len(args) > 2 else (
                self.as_int(kwargs["offset"], st, node) if "offset" in kwargs else I(0))
            return self.struct_unpack(fmt, args[1], off, st, node, exact=False)
        if full == "struct.calcsize":
            from .calls import parse_struct_fmt
            _, items = parse_struct_fmt(self.const_str(node.args[0], st))
            return V(INT, I(sum(c[1] for c in items)))
        if full == "os.urandom":
            n = self.as_int(args[0], st, node)
            self.may_raise(st, n < 0, "ValueError", node, "negative argument not allowed")
            r = z3.Const(fresh_name("urandom"), B.S)
            st.define(B.Len(r) == z3.If(n < 0, I(0), n))
            return V(BYTES, r)
        if full in ("google_crc32c.value", "crc32c"):
            # external C function: uninterpreted, 32-bit result (A-EXT)
            P = prelude()
            f = P.func("crc32c", P.Bytes.S, Int)
            d = self.need_value(args[0], st, node)
            r = f(d.z)
            st.pc.append(z3.And(r >= 0, r < 2 ** 32)) if not self.spec_mode else None
            self.note_assumption("google_crc32c.value is an uninterpreted function with a 32-bit result")
            return V(INT, r)
        if full in ("asyncio.ensure_future", "asyncio.create_task"):
            return fresh(ANY, "task")
        if full == "random.random":
            r = fresh(REAL, "rand")
            st.pc.append(z3.And(r.z >= 0, r.z < 1))
            return r
        if full == "asyncio.sleep":
            # suspension point: the task may be cancelled here (asyncio.CancelledError); otherwise returns None
            self.may_raise(st, z3.Bool(fresh_name("cancelled")), "asyncio.CancelledError", node, "task cancelled while sleeping")
            return V(NONE, None)
        if full == "time.time":
            r = fresh(REAL, "time")
            return r
        if full in ("math.ceil", "math.floor") and isinstance(node, ast.Call) and node.args \
                and isinstance(node.args[0], ast.BinOp) and isinstance(node.args[0].op, ast.Div):
            # ceil(a / b), floor(a / b) over integers: exact integer arithmetic (the float quotient is exact enough
            # for |a|, |b| < 2**53; recorded as an assumption)
            sub = st.copy()
            try:
                self.spec_mode += 1
                la, lb = self.ev(node.args[0].left, sub), self.ev(node.args[0].right, sub)
            finally:
                self.spec_mode -= 1
            if isinstance(la.t, (TInt, TBool)) and isinstance(lb.t, (TInt, TBool)):
                a, b = self.as_int(la, st, node), self.as_int(lb, st, node)
                self.may_raise(st, b == 0, "ZeroDivisionError", node, "division by zero")
                self.note_assumption("math.ceil/floor of an integer quotient computed in exact integer arithmetic (float rounding ignored)")
                if name == "floor":
                    return V(INT, self.floordiv(a, b, st, node))
                return V(INT, -self.floordiv(-a, b, st, node))
        if full in ("math.ceil", "math.floor"):
            v = coerce(self.need_value(args[0], st, node), REAL)
            fl = z3.ToInt(v.z)
            if name == "floor":
                return V(INT, fl)
            return V(INT, z3.If(z3.ToReal(fl) == v.z, fl, fl + 1))
        if full == "math.sqrt":
            v = coerce(self.need_value(args[0], st, node), REAL)
            self.may_raise(st, v.z < 0, "ValueError", node, "math domain error")
            r = z3.Const(fresh_name("sqrt"), z3.RealSort())
            st.pc.append(z3.And(r >= 0, r * r == v.z))
            return V(REAL, r)
        if full == "math.log10":
            v = coerce(self.need_value(args[0], st, node), REAL)
            self.may_raise(st, v.z <= 0, "ValueError", node, "math domain error")
            return fresh(REAL, "log10")
        if full == "math.pow" or full == "math.exp":
            if name == "exp":
                r = fresh(REAL, "exp")
                st.pc.append(r.z > 0)
                return r
            x = coerce(self.need_value(args[0], st, node), REAL)
            y = coerce(self.need_value(args[1], st, node), REAL)
            return self.real_pow(x.z, y.z, y, st, node)
        if full == "math.fabs":
            v = coerce(self.need_value(args[0], st, node), REAL)
            return V(REAL, z3.If(v.z < 0, -v.z, v.z))
        if full == "collections.deque" and not args and not kwargs:
            # deque(): modelled like a list (append/popleft/indexing/iteration); the element type comes from the first use
            return self.new_list(st, TOpaque("empty"), [])
        if full == "copy.copy" or full == "copy.deepcopy":
            return self.copy_value(args[0], st, node, deep=name == "deepcopy")
        if mod.startswith("asyncio") or mod.startswith("logging") or mod in ("pyee", "pyee.asyncio"):
            self.note_assumption(f"external call {full} assumed effect-free on modelled state and non-raising")
            return fresh(ANY, "ext")
        if full in self.extern_handlers:
            return self.extern_handlers[full](self, args, kwargs, st, node)
        raise Unsupported(f"external call {full}: {self.src(node)}")

    def const_str(self, node, st) -> str:
        if isinstance(node, ast.Constant) and isinstance(node.value, str):
            return node.value
        raise Unsupported(f"non-literal string {self.src(node)}")

    def copy_value(self, v: V, st, node, deep):
        v = self.need_value(v, st, node)
        if isinstance(v.t, (TInt, TBool, TReal, TBytes, TStr, TEnum)):
            return v
        if isinstance(v.t, TObj):
            ci = self.class_info(v.t.cls)
            ref = self.new_ref(st, "copy")
            obj = V(v.t, ref)
            spec = self.reg.classes.get(ci.qual)
            names = [f[0] for f in ci.dc_fields] if ci.is_dataclass else list(spec.fields if spec else [])
            for fname in names:
                ft = self.field_type(v.t.cls, fname)
                if ft is None:
                    raise Unsupported(f"copy of {v.t.cls}: field {fname} untyped")
                decl, ftype = ft
                fv = self.read_field(st, v.z, decl, fname, ftype)
                if deep:
                    fv = self.copy_value(fv, st, node, True) if not isinstance(ftype, TOpt) else self.copy_opt(fv, st, node)
                self.write_field(st, ref, decl, fname, ftype, fv)
            return obj
        if isinstance(v.t, TList):
            th = theory_of(v.t)
            seq = self.list_content(st, v)
            if deep and not isinstance(v.t.elt, (TInt, TBool, TReal, TBytes, TStr, TEnum)):
                if isinstance(v.t.elt, TObj) and self.class_has_value_eq(v.t.elt.cls):
                    # fresh elements, equal field-wise: summarised by value equality
                    r = z3.Const(fresh_name("copied"), th.S)
                    st.pc.append(self.seq_equal(v.t, r, v.t, seq, st, node))
                    return self.new_list_from_seq(st, v.t.elt, r)
                raise Unsupported(f"deepcopy of {v.t}")
            return self.new_list_from_seq(st, v.t.elt, seq)
        if isinstance(v.t, TDict):
            d = self.new_dict(st, v.t)
            name, ks, vs = self.dict_keys(v.t)
            self.heap_write(st, name + ".dom", z3.ArraySort(ks, Bool), d.z, self.dict_dom(st, v))
            self.heap_write(st, name + ".val", z3.ArraySort(ks, vs), d.z, self.dict_val(st, v))
            return d
        if isinstance(v.t, TTuple):
            return V(v.t, tuple(self.copy_value(x, st, node, deep) for x in v.z))
        raise Unsupported(f"copy of {v.t}")

    def copy_opt(self, v, st, node):
        if isinstance(v.t.inner, (TInt, TBool, TReal, TBytes, TStr, TEnum)):
            return v
        raise Unsupported(f"deepcopy of {v.t}")

    # ---------------------------------------------------------------- methods of builtin types
    def call_builtin_method(self, recv: V, attr, args, kwargs, st, node) -> V:
        P = prelude()
        B = P.Bytes
        t = recv.t
        if isinstance(t, TBytes):
            if attr == "decode":
                enc = "utf8"
                if node.args and isinstance(node.args[0], ast.Constant):
                    enc = node.args[0].value
                enc = enc.lower().replace("-", "")
                if enc in ("utf8",):
                    self.may_raise(st, z3.Not(P.valid_utf8(recv.z)), "UnicodeDecodeError", node, "invalid utf-8")
                    return V(STR, P.unutf8(recv.z))
                if enc == "ascii":
                    k = z3.Int(fresh_name("k"))
                    bad = z3.Exists([k], z3.And(0 <= k, k < B.Len(recv.z), B.Idx(recv.z, k) >= 128))
                    self.may_raise(st, bad, "UnicodeDecodeError", node, "ordinal not in range(128)")
                    f = P.func("unascii", B.S, P.Str)
                    r = f(recv.z)
                    st.pc.append(P.utf8(r) == recv.z)
                    st.pc.append(P.is_ascii(r))
                    return V(STR, r)
                raise Unsupported(f"decode({enc})")
            if attr == "hex":
                return fresh(STR, "hex")
            if attr in ("find", "index", "startswith", "endswith", "split", "replace"):
                raise Unsupported(f"bytes.{attr}")
        if isinstance(t, TStr):
            if attr == "encode":
                enc = "utf8"
                if node.args and isinstance(node.args[0], ast.Constant):
                    enc = node.args[0].value
                enc = enc.lower().replace("-", "")
                if enc == "utf8":
                    return V(BYTES, P.utf8(recv.z))
                if enc == "ascii":
                    self.may_raise(st, z3.Not(P.is_ascii(recv.z)), "UnicodeEncodeError", node, "ordinal not in range(128)")
                    return V(BYTES, P.utf8(recv.z))
                raise Unsupported(f"encode({enc})")
            if attr == "lower":
                return V(STR, P.lower(recv.z))
            if attr == "upper":
                return V(STR, P.upper(recv.z))
            if attr in ("startswith", "endswith"):
                f = P.func("str." + attr, P.Str, P.Str, Bool)
                a0 = self.need_value(args[0], st, node)
                return V(BOOL, f(recv.z, a0.z))
            if attr == "format":
                return fresh(STR, "fmt")
            raise Unsupported(f"str.{attr}")
        if isinstance(t, TList):
            return self.list_method(recv, attr, args, kwargs, st, node)
        if isinstance(t, TDict):
            return self.dict_method(recv, attr, args, kwargs, st, node)
        if isinstance(t, TSet):
            return self.set_method(recv, attr, args, kwargs, st, node)
        if isinstance(t, TInt) and attr == "to_bytes":
            raise Unsupported("int.to_bytes")
        raise Unsupported(f"method {attr} of {t}: {self.src(node)}")

    def receiver_rebind(self, node, st, new: V):
        """When an untyped empty list gets its type at first use, update the variable it lives in."""
        f = node.func if isinstance(node, ast.Call) else None
        if f is not None and isinstance(f, ast.Attribute):
            if isinstance(f.value, ast.Name) and f.value.id in st.locals:
                st.locals[f.value.id] = new
            elif isinstance(f.value, ast.Attribute):
                pass

    def list_method(self, recv: V, attr, args, kwargs, st, node) -> V:
        t = recv.t
        untyped = isinstance(t.elt, TOpaque) and t.elt.name == "empty"
        if attr in ("append", "appendleft", "insert", "extend") and untyped:
            if attr == "extend":
                src = self.need_value(args[0], st, node)
                if isinstance(src.t, (TList, TSeq)):
                    elt = src.t.elt
                elif isinstance(src.t, TBytes):
                    elt = INT
                else:
                    raise Unsupported("extend of untyped list")
            else:
                elt = args[-1].t
            recv = self.retype_empty_list(st, recv, elt)
            self.receiver_rebind(node, st, recv)
            t = recv.t
            untyped = False
        if untyped:
            if attr in ("pop", "popleft"):
                self.may_raise(st, z3.BoolVal(True), "IndexError", node, "pop from empty list")
                raise DeadPath()
            if attr in ("clear", "copy"):
                return recv if attr == "copy" else V(NONE, None)
            raise Unsupported(f"{attr} on untyped empty list")
        th = theory_of(t)
        seq = self.list_content(st, recv)
        n = th.Len(seq)
        if attr == "append":
            x = box(self.coerce_to(st, args[0], t.elt))
            self.set_list_content(st, recv, th.App(seq, th.Unit(x)))
            return V(NONE, None)
        if attr == "appendleft":
            x = box(self.coerce_to(st, args[0], t.elt))
            self.set_list_content(st, recv, th.App(th.Unit(x), seq))
            return V(NONE, None)
        if attr == "extend":
            self.list_extend(st, recv, args[0], node)
            return V(NONE, None)
        if attr == "insert":
            i = self.as_int(args[0], st, node)
            x = box(self.coerce_to(st, args[1], t.elt))
            pos = z3.If(i < 0, z3.If(n + i < 0, I(0), n + i), z3.If(i > n, n, i))
            pos = self.bind(st, V(INT, pos), "inspos").z
            self.set_list_content(st, recv, th.App(th.App(th.Slice(seq, I(0), pos), th.Unit(x)), th.Slice(seq, pos, n)))
            return V(NONE, None)
        if attr in ("pop", "popleft"):
            if attr == "popleft" or (args and True):
                i = I(0) if attr == "popleft" else self.as_int(args[0], st, node)
            else:
                i = n - 1
            if attr == "pop" and not args:
                self.may_raise(st, n == 0, "IndexError", node, "pop from empty list")
                item = unbox(th.Idx(seq, n - 1), t.elt)
                self.set_list_content(st, recv, th.Slice(seq, I(0), n - 1))
                return self.bind(st, item, "popped")
            self.may_raise(st, n == 0, "IndexError", node, "pop from empty list")
            idx = self.norm_index(i, n, st, node, "pop index")
            idx = self.bind(st, V(INT, idx), "popidx").z
            item = unbox(th.Idx(seq, idx), t.elt)
            self.set_list_content(st, recv, th.App(th.Slice(seq, I(0), idx), th.Slice(seq, idx + 1, n)))
            return self.bind(st, item, "popped")
        if attr == "clear":
            self.set_list_content(st, recv, th.Empty)
            return V(NONE, None)
        if attr == "copy":
            return self.new_list_from_seq(st, t.elt, seq)
        if attr == "index":
            x = self.coerce_to(st, args[0], t.elt)
            j = z3.Int(fresh_name("index"))
            k = z3.Int(fresh_name("k"))
            found = self.contains(recv, x, st, node)
            self.may_raise(st, z3.Not(found), "ValueError", node, "x not in list")
            st.pc.append(z3.And(0 <= j, j < n, self.equal(unbox(th.Idx(seq, j), t.elt), x, st, node),
                                z3.ForAll([k], z3.Implies(z3.And(0 <= k, k < j),
                                                          z3.Not(self.equal(unbox(th.Idx(seq, k), t.elt), x, st, node))),
                                          patterns=[th.Idx(seq, k)])))
            return V(INT, j)
        if attr == "remove":
            x = self.coerce_to(st, args[0], t.elt)
            j = z3.Int(fresh_name("index"))
            k = z3.Int(fresh_name("k"))
            found = self.contains(recv, x, st, node)
            self.may_raise(st, z3.Not(found), "ValueError", node, "list.remove(x): x not in list")
            st.pc.append(z3.And(0 <= j, j < n, self.equal(unbox(th.Idx(seq, j), t.elt), x, st, node),
                                z3.ForAll([k], z3.Implies(z3.And(0 <= k, k < j),
                                                          z3.Not(self.equal(unbox(th.Idx(seq, k), t.elt), x, st, node))),
                                          patterns=[th.Idx(seq, k)])))
            self.set_list_content(st, recv, th.App(th.Slice(seq, I(0), j), th.Slice(seq, j + 1, n)))
            return V(NONE, None)
        raise Unsupported(f"list.{attr}")

    def list_extend(self, st, lst: V, src: V, node):
        src = self.need_value(src, st, node)
        if isinstance(lst.t.elt, TOpaque) and lst.t.elt.name == "empty":
            raise Unsupported("extend of untyped list")
        th = theory_of(lst.t)
        if isinstance(src.t, TList):
            other = self.list_content(st, src)
        elif isinstance(src.t, TSeq):
            other = src.z
        elif isinstance(src.t, TTuple):
            other = th.lit([box(coerce(x, lst.t.elt)) for x in src.z])
        else:
            raise Unsupported(f"extend with {src.t}")
        self.set_list_content(st, lst, th.App(self.list_content(st, lst), other))

    def dict_store(self, st, d: V, k: V, val: V):
        self.dict_set(st, d, k, val)

    def dict_remove(self, st, d: V, k: V):
        self.dict_del(st, d, k)

    def dict_method(self, recv: V, attr, args, kwargs, st, node) -> V:
        t = recv.t
        if attr == "get":
            k = coerce(args[0], t.key)
            has = self.dict_has(st, recv, k)
            val = self.dict_get(st, recv, k)
            default = args[1] if len(args) > 1 else V(NONE, None)
            if isinstance(default.t, TSet) and isinstance(default.t.elt, TOpaque) and default.t.elt.name == "empty" \
                    and isinstance(t.val, TSet):
                default = self.retype_empty_set(st, default, t.val)
            return ite(has, val, default)
        if attr == "pop":
            if isinstance(args[0].t, TOpt) and not isinstance(t.key, TOpt):
                # d.pop(None): None is never a key of a dict[K, V]
                if len(args) > 1:
                    raise Unsupported("dict.pop(optional key, default)")
                self.may_raise(st, opt_is_none(args[0]), "KeyError", node, "pop(None)")
                args = [opt_get(args[0])] + list(args[1:])
            k = coerce(args[0], t.key)
            has = self.dict_has(st, recv, k)
            val = self.bind(st, self.dict_get(st, recv, k), "popped")
            if len(args) > 1:
                res = ite(has, val, args[1])
            else:
                self.may_raise(st, z3.Not(has), "KeyError", node, "pop of missing key")
                res = val
            self.dict_del(st, recv, k)
            return res
        if attr in ("keys", "values", "items"):
            return self.dict_view(recv, attr, st, node)
        if attr == "clear":
            name, ks, vs = self.dict_keys(t)
            self.heap_write(st, name + ".dom", z3.ArraySort(ks, Bool), recv.z, z3.K(ks, False))
            return V(NONE, None)
        if attr == "setdefault":
            k = coerce(args[0], t.key)
            has = self.dict_has(st, recv, k)
            cur = self.dict_get(st, recv, k)
            val = ite(has, cur, coerce(args[1], t.val))
            self.dict_set(st, recv, k, val)
            return val
        raise Unsupported(f"dict.{attr}")

    def dict_view(self, d: V, which, st, node) -> V:
        """Snapshot enumeration of a dict: duplicate-free key sequence covering the domain."""
        t = d.t
        ks = sort_of(t.key)
        th = seq_theory(t.key)
        keys = z3.Const(fresh_name("keys"), th.S)
        dom = self.dict_dom(st, d)
        vm = self.dict_val(st, d)
        k, j = z3.Ints(fresh_name("k") + " " + fresh_name("j"))
        x = z3.Const(fresh_name("x"), ks)
        pos = prelude().func("keypos!" + fresh_name("f"), ks, Int)
        st.pc.append(z3.ForAll([k], z3.Implies(z3.And(0 <= k, k < th.Len(keys)),
                                               z3.And(z3.Select(dom, th.Idx(keys, k)), pos(th.Idx(keys, k)) == k)),
                               patterns=[th.Idx(keys, k)]))
        W = prelude().func("Wit", Int, Bool)
        st.pc.append(z3.ForAll([x], z3.Implies(z3.Select(dom, x),
                                               z3.And(0 <= pos(x), pos(x) < th.Len(keys), th.Idx(keys, pos(x)) == x,
                                                      W(pos(x)))),      # position of x: a witness for exists()
                               patterns=[z3.Select(dom, x)]))
        st.pc.append(th.Len(keys) == self.dict_size(st, d))
        if which == "keys":
            return V(TSeq(t.key), keys)
        vth = seq_theory(t.val)
        vals = z3.Const(fresh_name("vals"), vth.S)
        st.pc.append(vth.Len(vals) == th.Len(keys))
        st.pc.append(z3.ForAll([k], z3.Implies(z3.And(0 <= k, k < th.Len(keys)),
                                               vth.Idx(vals, k) == z3.Select(vm, th.Idx(keys, k))),
                               patterns=[vth.Idx(vals, k)]))
        if which == "values":
            # coverage stated on the values themselves (creates the term vals[pos(x)] for every key in the domain)
            st.pc.append(z3.ForAll([x], z3.Implies(z3.Select(dom, x), vth.Idx(vals, pos(x)) == z3.Select(vm, x)),
                                   patterns=[z3.Select(dom, x)]))
            return V(TSeq(t.val), vals)
        # items: sequence of pairs
        pt = TTuple((t.key, t.val))
        pth = seq_theory(pt)
        items = z3.Const(fresh_name("items"), pth.S)
        dt = sort_of(pt)
        st.pc.append(pth.Len(items) == th.Len(keys))
        st.pc.append(z3.ForAll([k], z3.Implies(z3.And(0 <= k, k < th.Len(keys)),
                                               pth.Idx(items, k) == dt.mk(th.Idx(keys, k), z3.Select(vm, th.Idx(keys, k)))),
                               patterns=[pth.Idx(items, k)]))
        # coverage stated on the pairs themselves (creates the term items[pos(x)] for every key in the domain)
        st.pc.append(z3.ForAll([x], z3.Implies(z3.Select(dom, x),
                                               pth.Idx(items, pos(x)) == dt.mk(x, z3.Select(vm, x))),
                               patterns=[z3.Select(dom, x)]))
        v = V(TSeq(pt), items)
        v._keys = keys
        return v

    def set_method(self, recv: V, attr, args, kwargs, st, node) -> V:
        t = recv.t
        dom = self.set_dom(st, recv)
        if attr == "add":
            x = coerce(args[0], t.elt)
            self.set_write(st, recv, z3.Store(dom, box(x), True))
            return V(NONE, None)
        if attr == "discard":
            x = coerce(args[0], t.elt)
            self.set_write(st, recv, z3.Store(dom, box(x), False))
            return V(NONE, None)
        if attr == "remove":
            x = coerce(args[0], t.elt)
            self.may_raise(st, z3.Not(z3.Select(dom, box(x))), "KeyError", node, "set.remove of missing element")
            self.set_write(st, recv, z3.Store(dom, box(x), False))
            return V(NONE, None)
        if attr == "clear":
            self.set_write(st, recv, z3.K(sort_of(t.elt), False))
            return V(NONE, None)
        if attr == "copy":
            s = self.new_set(st, t)
            self.set_write(st, s, dom)
            return s
        raise Unsupported(f"set.{attr}")

    def dispatch_method(self, st, recv: V, name, args, kwargs, node) -> V:
        ci = self.class_info(recv.t.cls)
        m = self.repo.lookup_method(ci, name)
        if m is None:
            raise Unsupported(f"{recv.t.cls} has no method {name}")
        return self.call_function(st, m[0], m[1], [recv] + args, kwargs, node)
