"""Run-time reading of contracts: evaluates the same contract text on real objects.
Runs under /venv/bin/python (no z3).  Used by replay and by the monitoring plugin."""
from __future__ import annotations

import ast
import copy
import importlib
import textwrap


class Ctx:
    """Helper functions visible to contract expressions at run time."""

    def __init__(self, registry):
        self.reg = registry
        self.alias: dict = {}
        self.env = {
            "u8": lambda b, o=0: b[o],
            "u16": lambda b, o=0: int.from_bytes(bytes(b[o:o + 2]), "big") if len(b[o:o + 2]) == 2 else _short(),
            "u24": lambda b, o=0: int.from_bytes(bytes(b[o:o + 3]), "big") if len(b[o:o + 3]) == 3 else _short(),
            "u32": lambda b, o=0: int.from_bytes(bytes(b[o:o + 4]), "big") if len(b[o:o + 4]) == 4 else _short(),
            "u64": lambda b, o=0: int.from_bytes(bytes(b[o:o + 8]), "big") if len(b[o:o + 8]) == 8 else _short(),
            "i24": lambda b, o=0: int.from_bytes(bytes(b[o:o + 3]), "big", signed=True) if len(b[o:o + 3]) == 3 else _short(),
            "i32": lambda b, o=0: int.from_bytes(bytes(b[o:o + 4]), "big", signed=True) if len(b[o:o + 4]) == 4 else _short(),
            "u32le": lambda b, o=0: int.from_bytes(bytes(b[o:o + 4]), "little") if len(b[o:o + 4]) == 4 else _short(),
            "forall": _forall,
            "exists": _exists,
            "implies": lambda a, b: (not a) or bool(b),
            "iff": lambda a, b: bool(a) == bool(b),
            "pow2": lambda e: 2 ** e,
            "ite": lambda c, a, b: a if c else b,
            "is_none": lambda x: x is None,
            "seq": lambda x: list(x) if x is not None else None,
            "fresh": lambda x: True,
            "uf_str": lambda tag, *a: __import__("pyvc.contracts", fromlist=["RUNTIME_FNS"]).RUNTIME_FNS[tag](*a),
            "uf_any": lambda tag, *a: __import__("pyvc.contracts", fromlist=["RUNTIME_FNS"]).RUNTIME_FNS[tag](*a),
            "same": self._same,
            # now(old(e)): the live object that the pre-state value e refers to (old() is evaluated on a deep copy)
            "now": lambda x: self.alias.get(id(x), x),
            "utf8": lambda s: s.encode("utf8"),
            "valid_utf8": _valid_utf8,
            "wit": lambda x: True,
            "_priv": _priv,
            "crc32c": _crc32c,
            "all_in": lambda c, f: all(f(x) for x in list(c)),
            "joined": lambda f, n: b"".join(bytes(f(k)) for k in range(n)),
        }
        for name, sf in registry.specfns.items():
            self.env[name] = self._macro(sf)

    def _same(self, a, b):
        """reference identity; objects of the pre-state snapshot are identified with the objects they copy"""
        a = self.alias.get(id(a), a)
        b = self.alias.get(id(b), b)
        if a is b:
            return True
        if isinstance(a, (int, float, str, bytes, tuple, type(None))) and isinstance(b, (int, float, str, bytes, tuple, type(None))):
            return a == b
        return False

    def snapshot_all(self, local: dict) -> dict:
        """Copy of the inputs for old(): containers and objects of classes the contracts describe are copied (one
        shared memo, so sharing is preserved); every other object is an opaque reference and is *shared* with the
        live state, because the contracts only ever compare it by identity.  Remembers copy -> original for same()."""
        import dataclasses
        known = {q.split(":")[-1] for q in self.reg.classes}
        memo: dict = {}
        self.alias.clear()      # ids of earlier snapshots may have been recycled

        def cp(x):
            if x is None or isinstance(x, (bool, int, float, str, bytes)):
                return x
            if id(x) in memo:
                return memo[id(x)][1]
            if isinstance(x, bytearray):
                r = bytearray(x)
            elif isinstance(x, list):
                r = []
                memo[id(x)] = (x, r)
                self.alias[id(r)] = x
                r.extend(cp(e) for e in x)
                return r
            elif type(x).__name__ == "deque":
                r = type(x)()
                memo[id(x)] = (x, r)
                self.alias[id(r)] = x
                r.extend(cp(e) for e in x)
                return r
            elif isinstance(x, tuple):
                r = tuple(cp(e) for e in x)
            elif isinstance(x, (set, frozenset)):
                r = type(x)(cp(e) for e in x)
                if isinstance(x, set):
                    self.alias[id(r)] = x
            elif isinstance(x, dict):
                r = {}
                memo[id(x)] = (x, r)
                self.alias[id(r)] = x
                for k, v in x.items():
                    r[cp(k)] = cp(v)
                return r
            elif type(x).__name__ in known or (dataclasses.is_dataclass(x) and type(x).__module__.startswith("aiortc")):
                try:
                    r = type(x).__new__(type(x))
                except Exception:
                    return x
                memo[id(x)] = (x, r)
                for k, v in list(vars(x).items()):
                    try:
                        object.__setattr__(r, k, cp(v))
                    except Exception:
                        pass
                self.alias[id(r)] = x
                return r
            else:
                return x           # opaque: shared
            memo[id(x)] = (x, r)
            return r

        out = {k: cp(v) for k, v in local.items()}
        self._keepalive = (memo, out)
        return out

    def _macro(self, sf):
        tree = _Lazy().visit(ast.parse(textwrap.dedent(sf.body).strip(), mode="eval"))
        ast.fix_missing_locations(tree)
        code = compile(tree, f"<spec {sf.name}>", "eval")

        def fn(*args, _sf=sf, _code=code):
            local = dict(zip(_sf.params, args))
            return eval(_code, self.env, local)
        return fn

    def evaluate(self, text: str, local: dict, old_local: dict | None = None):
        tree = ast.parse(textwrap.dedent(text).strip(), mode="eval")
        if old_local is not None:
            tree = _OldSubst(self, old_local).visit(tree)
        tree = _Lazy().visit(tree)
        ast.fix_missing_locations(tree)
        env = dict(self.env)
        env.update(local)   # lambdas inside forall() resolve names through globals
        return eval(compile(tree, "<contract>", "eval"), env, {})


def _crc32c(data):
    from google_crc32c import value
    return value(bytes(data))


def _priv(obj, name):
    """self.__x written in a contract: resolve the name-mangled attribute on the object's class hierarchy"""
    for klass in type(obj).__mro__:
        mangled = f"_{klass.__name__.lstrip('_')}{name}"
        if hasattr(obj, mangled):
            return getattr(obj, mangled)
    return getattr(obj, name)


class _Lazy(ast.NodeTransformer):
    def visit_Attribute(self, node):
        self.generic_visit(node)
        if node.attr.startswith("__") and not node.attr.endswith("__") and isinstance(node.ctx, ast.Load):
            return ast.copy_location(ast.Call(func=ast.Name(id="_priv", ctx=ast.Load()),
                                              args=[node.value, ast.Constant(node.attr)], keywords=[]), node)
        return node

    """implies(a, b) / ite(c, a, b) evaluate their operands lazily, as the logical reading does."""

    def visit_Call(self, node):
        self.generic_visit(node)
        if isinstance(node.func, ast.Name) and node.func.id == "implies" and len(node.args) == 2:
            return ast.copy_location(ast.BoolOp(op=ast.Or(), values=[
                ast.UnaryOp(op=ast.Not(), operand=node.args[0]),
                ast.Call(func=ast.Name(id="bool", ctx=ast.Load()), args=[node.args[1]], keywords=[])]), node)
        if isinstance(node.func, ast.Name) and node.func.id == "ite" and len(node.args) == 3:
            return ast.copy_location(ast.IfExp(test=node.args[0], body=node.args[1], orelse=node.args[2]), node)
        return node


class _Short(Exception):
    pass


def _short():
    raise _Short("reader beyond the end of the buffer")


def _forall(f, *bounds):
    n = f.__code__.co_argcount
    if n == 1:
        lo, hi = bounds if bounds else (0, 0)
        return all(f(k) for k in range(lo, hi))
    if n == 2:
        lo1, hi1, lo2, hi2 = bounds
        return all(f(a, b) for a in range(lo1, hi1) for b in range(lo2, hi2))
    raise ValueError("forall arity")


def _exists(f, *bounds):
    n = f.__code__.co_argcount
    if n == 1:
        lo, hi = bounds
        return any(f(k) for k in range(lo, hi))
    lo1, hi1, lo2, hi2 = bounds
    return any(f(a, b) for a in range(lo1, hi1) for b in range(lo2, hi2))


def _valid_utf8(b):
    try:
        bytes(b).decode("utf8")
        return True
    except UnicodeDecodeError:
        return False


class _StripOld(ast.NodeTransformer):
    def visit_Call(self, node):
        self.generic_visit(node)
        if isinstance(node.func, ast.Name) and node.func.id == "old" and len(node.args) == 1:
            return node.args[0]
        return node


class _OldSubst(ast.NodeTransformer):
    """old(e) is evaluated against the pre-state snapshot.  Without bound variables it is replaced by a
    constant holder; under forall/exists/joined lambdas it becomes a function of the bound variables whose
    body is evaluated in the pre-state environment."""

    def __init__(self, ctx, old_local):
        self.ctx = ctx
        self.old_local = old_local
        self.n = 0
        self.bound: list[str] = []

    def visit_Lambda(self, node):
        names = [a.arg for a in node.args.args]
        self.bound.extend(names)
        try:
            node.body = self.visit(node.body)
        finally:
            del self.bound[len(self.bound) - len(names):]
        return node

    def visit_Call(self, node):
        if isinstance(node.func, ast.Name) and node.func.id == "old":
            env = dict(self.ctx.env)
            env.update(self.old_local)
            used = [b for b in dict.fromkeys(self.bound)
                    if any(isinstance(n, ast.Name) and n.id == b for n in ast.walk(node.args[0]))]
            name = f"__old{self.n}"
            self.n += 1
            inner = _Lazy().visit(_StripOld().visit(node.args[0]))   # old(old(x)) == old(x)
            if not used:
                expr = ast.Expression(inner)
                ast.fix_missing_locations(expr)
                self.ctx.env[name] = eval(compile(expr, "<old>", "eval"), env, {})
                return ast.copy_location(ast.Name(id=name, ctx=ast.Load()), node)
            lam = ast.Expression(ast.Lambda(
                args=ast.arguments(posonlyargs=[], args=[ast.arg(arg=b) for b in used], kwonlyargs=[], kw_defaults=[],
                                   defaults=[]), body=inner))
            ast.fix_missing_locations(lam)
            self.ctx.env[name] = eval(compile(lam, "<old>", "eval"), env, {})
            return ast.copy_location(ast.Call(func=ast.Name(id=name, ctx=ast.Load()),
                                              args=[ast.Name(id=b, ctx=ast.Load()) for b in used], keywords=[]), node)
        return self.generic_visit(node)


def resolve(qual: str):
    """'aiortc.rtp:RtcpRrPacket.parse' -> (owner class or None, callable attribute name, object)."""
    modname, _, path = qual.partition(":")
    mod = importlib.import_module(modname)
    obj = mod
    owner = None
    parts = path.split(".")
    for i, p in enumerate(parts):
        if i == len(parts) - 1 and isinstance(obj, type):
            owner = obj
        mangled = p
        if p.startswith("__") and not p.endswith("__") and isinstance(obj, type):
            mangled = f"_{obj.__name__.lstrip('_')}{p}"
        obj = getattr(obj, mangled)
    return mod, owner, obj


def snapshot(x):
    try:
        return copy.deepcopy(x)
    except Exception:
        return x
