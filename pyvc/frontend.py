"""Front end: read /repo's *current* working tree with `ast`, index modules, classes,
functions and module constants.  Nothing is imported or executed from the repo.

What extraction drops (DESIGN 2.2): docstrings, annotations (kept as sort hints),
`# type:` comments, `cast(T, e)` -> e, logging calls.
"""
from __future__ import annotations

import ast
import hashlib
import os
from dataclasses import dataclass, field
from typing import Optional

REPO = os.environ.get("PYVC_REPO", "/repo")
SRC = os.path.join(REPO, "src")


@dataclass
class ClassInfo:
    name: str
    module: str
    node: ast.ClassDef
    bases: list[str]
    is_dataclass: bool = False
    is_enum: bool = False
    nested: dict = field(default_factory=dict)   # name -> ClassInfo of classes defined in the class body
    # ordered (name, annotation ast or None, default ast or None) for dataclass fields
    dc_fields: list[tuple[str, Optional[ast.expr], Optional[ast.expr]]] = field(default_factory=list)
    methods: dict[str, ast.AST] = field(default_factory=dict)
    decorators: dict[str, list[str]] = field(default_factory=dict)
    class_consts: dict[str, ast.expr] = field(default_factory=dict)
    enum_members: list[tuple[str, ast.expr]] = field(default_factory=list)
    field_types: dict[str, object] = field(default_factory=dict)  # filled by sidecars / annotations

    @property
    def qual(self):
        return f"{self.module}:{self.name}"


@dataclass
class ModuleInfo:
    name: str
    path: str
    tree: ast.Module
    source: str
    functions: dict[str, ast.AST] = field(default_factory=dict)
    classes: dict[str, ClassInfo] = field(default_factory=dict)
    consts: dict[str, ast.expr] = field(default_factory=dict)
    imports: dict[str, tuple[str, Optional[str]]] = field(default_factory=dict)  # local -> (module, name|None)


class Repo:
    def __init__(self, src: str = SRC, package: str = "aiortc"):
        self.src = src
        self.package = package
        self.modules: dict[str, ModuleInfo] = {}
        self.classes: dict[str, ClassInfo] = {}
        self._load()

    def _load(self):
        root = os.path.join(self.src, self.package)
        for dirpath, _dirs, files in os.walk(root):
            for fn in sorted(files):
                if not fn.endswith(".py"):
                    continue
                path = os.path.join(dirpath, fn)
                rel = os.path.relpath(path, self.src)[:-3].replace(os.sep, ".")
                if rel.endswith(".__init__"):
                    rel = rel[: -len(".__init__")]
                with open(path, encoding="utf8") as fh:
                    source = fh.read()
                try:
                    tree = ast.parse(source, filename=path)
                except SyntaxError:
                    continue
                mi = ModuleInfo(rel, path, tree, source)
                self._index_module(mi, is_pkg=fn == "__init__.py")
                self.modules[rel] = mi
        # class table by bare name; ambiguous names get module-qualified entries only
        seen: dict[str, list[ClassInfo]] = {}
        for mi in self.modules.values():
            for ci in mi.classes.values():
                seen.setdefault(ci.name, []).append(ci)
        for name, cis in seen.items():
            if len(cis) == 1:
                self.classes[name] = cis[0]
            for ci in cis:
                self.classes[ci.qual] = ci

    def _index_module(self, mi: ModuleInfo, is_pkg: bool):
        pkg_parts = mi.name.split(".") if is_pkg else mi.name.split(".")[:-1]
        for node in mi.tree.body:
            if isinstance(node, (ast.FunctionDef, ast.AsyncFunctionDef)):
                mi.functions[node.name] = node
            elif isinstance(node, ast.ClassDef):
                ci = self._index_class(mi, node)
                mi.classes[node.name] = ci
                # classes nested in a class (RTCSctpTransport.State): indexed under the dotted name
                for sub in node.body:
                    if isinstance(sub, ast.ClassDef):
                        nci = self._index_class(mi, sub)
                        nci.name = f"{node.name}.{sub.name}"
                        ci.nested[sub.name] = nci
                        mi.classes[nci.name] = nci
            elif isinstance(node, ast.Assign) and len(node.targets) == 1 and isinstance(node.targets[0], ast.Name):
                mi.consts[node.targets[0].id] = node.value
            elif isinstance(node, ast.AnnAssign) and isinstance(node.target, ast.Name) and node.value is not None:
                mi.consts[node.target.id] = node.value
            elif isinstance(node, ast.ImportFrom):
                if node.level:
                    base = pkg_parts[: len(pkg_parts) - (node.level - 1)]
                    modname = ".".join(base + ([node.module] if node.module else []))
                else:
                    modname = node.module or ""
                for alias in node.names:
                    mi.imports[alias.asname or alias.name] = (modname, alias.name)
            elif isinstance(node, ast.Import):
                for alias in node.names:
                    mi.imports[alias.asname or alias.name.split(".")[0]] = (alias.name, None)

    def _index_class(self, mi: ModuleInfo, node: ast.ClassDef) -> ClassInfo:
        bases = []
        for b in node.bases:
            if isinstance(b, ast.Name):
                bases.append(b.id)
            elif isinstance(b, ast.Attribute):
                bases.append(b.attr)
        ci = ClassInfo(node.name, mi.name, node, bases)
        for d in node.decorator_list:
            dn = d.func if isinstance(d, ast.Call) else d
            if (isinstance(dn, ast.Name) and dn.id == "dataclass") or (
                    isinstance(dn, ast.Attribute) and dn.attr == "dataclass"):
                ci.is_dataclass = True
        if any(b in ("Enum", "IntEnum") for b in bases):
            ci.is_enum = True
        for st in node.body:
            if isinstance(st, (ast.FunctionDef, ast.AsyncFunctionDef)):
                is_setter = any(isinstance(d, ast.Attribute) and d.attr in ("setter", "deleter") for d in st.decorator_list)
                if is_setter:
                    # @x.setter: keep the getter under the plain name, file the setter separately
                    ci.methods[st.name + ".setter"] = st
                    continue
                ci.methods[st.name] = st
                decs = []
                for d in st.decorator_list:
                    if isinstance(d, ast.Name):
                        decs.append(d.id)
                    elif isinstance(d, ast.Attribute):
                        decs.append(d.attr)
                    else:
                        decs.append(ast.unparse(d))
                ci.decorators[st.name] = decs
            elif isinstance(st, ast.AnnAssign) and isinstance(st.target, ast.Name):
                ci.dc_fields.append((st.target.id, st.annotation, st.value))
                if st.value is not None:
                    ci.class_consts[st.target.id] = st.value
            elif isinstance(st, ast.Assign) and len(st.targets) == 1 and isinstance(st.targets[0], ast.Name):
                ci.class_consts[st.targets[0].id] = st.value
                if ci.is_enum:
                    ci.enum_members.append((st.targets[0].id, st.value))
        return ci

    # ---- lookups -------------------------------------------------------------
    def find_function(self, qual: str):
        """qual = 'aiortc.rtp:unpack_remb_fci' or 'aiortc.rtp:RtcpRrPacket.parse'.
        Returns (ModuleInfo, ClassInfo|None, FunctionDef)."""
        modname, _, path = qual.partition(":")
        mi = self.modules.get(modname)
        if mi is None:
            raise KeyError(f"module {modname} not found")
        if "." in path:
            cname, fname = path.split(".", 1)
            ci = mi.classes.get(cname)
            if ci is None:
                raise KeyError(f"class {cname} not found in {modname}")
            fn = self.lookup_method(ci, fname)
            if fn is None:
                raise KeyError(f"method {fname} not found in {modname}:{cname}")
            return mi, ci, fn[1]
        if path not in mi.functions:
            raise KeyError(f"function {path} not found in {modname}")
        return mi, None, mi.functions[path]

    def lookup_method(self, ci: ClassInfo, name: str):
        """Walk the MRO (single inheritance chains only). Returns (ClassInfo, node) or None."""
        seen = set()
        cur = ci
        while cur is not None and cur.qual not in seen:
            seen.add(cur.qual)
            if name in cur.methods:
                return cur, cur.methods[name]
            nxt = None
            for b in cur.bases:
                cand = self.resolve_class(cur.module, b)
                if cand is not None:
                    nxt = cand
                    break
            cur = nxt
        return None

    def resolve_class(self, module: str, name: str) -> Optional[ClassInfo]:
        mi = self.modules.get(module)
        if mi is not None:
            if name in mi.classes:
                return mi.classes[name]
            if name in mi.imports:
                m2, n2 = mi.imports[name]
                mi2 = self.modules.get(m2)
                if mi2 is not None and n2 in mi2.classes:
                    return mi2.classes[n2]
        return self.classes.get(name)

    def is_subclass(self, ci: ClassInfo, other: str) -> bool:
        cur = ci
        seen = set()
        while cur is not None and cur.qual not in seen:
            seen.add(cur.qual)
            if cur.name == other:
                return True
            nxt = None
            for b in cur.bases:
                if b == other:
                    return True
                cand = self.resolve_class(cur.module, b)
                if cand is not None:
                    nxt = cand
                    break
            cur = nxt
        return False

    def subclasses(self, name: str) -> list[ClassInfo]:
        out = []
        done = set()
        for ci in self.classes.values():
            if ci.qual in done:
                continue
            done.add(ci.qual)
            if ci.name != name and self.is_subclass(ci, name):
                out.append(ci)
        return out

    def source_hash(self, node: ast.AST) -> str:
        return hashlib.sha256(ast.dump(node, include_attributes=False).encode()).hexdigest()[:16]


def strip_docstring(body: list[ast.stmt]) -> list[ast.stmt]:
    if body and isinstance(body[0], ast.Expr) and isinstance(body[0].value, ast.Constant) and isinstance(
            body[0].value.value, str):
        return body[1:]
    return body
