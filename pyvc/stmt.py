"""Statement execution (mixin of Exec): path-splitting symbolic execution with state
merging at joins, loops cut by sidecar invariants, try/except, generators as ghost lists."""
from __future__ import annotations

import ast

import z3

from .prelude import prelude
from .state import State, Outcome, exc_is_subclass
from .ptypes import *  # noqa
from .values import (V, TPy, Unsupported, box, unbox, coerce, fresh, ite, join_types, none_of, some_of,
                     opt_is_none, opt_get, sort_of, theory_of, seq_theory, is_simple, fresh_name)
from .expr import DeadPath, I


def assigned_names(stmts) -> set:
    out = set()

    class Vis(ast.NodeVisitor):
        def visit_Name(self, n):
            if isinstance(n.ctx, (ast.Store, ast.Del)):
                out.add(n.id)

        def visit_FunctionDef(self, n):
            out.add(n.name)

        def visit_Lambda(self, n):
            pass

        def visit_ListComp(self, n):
            pass

        def visit_GeneratorExp(self, n):
            pass

    for s in stmts:
        Vis().visit(s)
    return out


class StmtMixin:
    # ------------------------------------------------------------------ blocks
    def exec_block(self, stmts, st: State) -> list[Outcome]:
        """Execute statements from one state; returns every way the block can end."""
        live = [st]
        done: list[Outcome] = []
        for s in stmts:
            nxt = []
            for cur in live:
                for oc in self.exec_stmt(s, cur):
                    if oc.kind == "next":
                        nxt.append(oc.st)
                    else:
                        done.append(oc)
            live = nxt
            if not live:
                break
            if len(live) > 1 and self.merge_enabled:
                live = self.merge_states(live)
        done.extend(Outcome("next", x) for x in live)
        return done

    def exec_stmt(self, s, st: State) -> list[Outcome]:
        m = getattr(self, "exec_" + type(s).__name__, None)
        if m is None:
            raise Unsupported(f"statement {type(s).__name__} at line {getattr(s, 'lineno', 0)}")
        self.cur_line = getattr(s, "lineno", self.cur_line)
        try:
            return m(s, st)
        except DeadPath:
            return []

    # ------------------------------------------------------------------ merging
    def merge_states(self, states: list[State]) -> list[State]:
        """Merge states that share a pc prefix and have mergeable locals; otherwise keep them apart."""
        if len(states) < 2:
            return states
        base = states[0]
        n0 = 0
        minlen = min(len(s.pc) for s in states)
        while n0 < minlen and all(s.pc[n0] is base.pc[n0] or s.pc[n0].eq(base.pc[n0]) for s in states[1:]):
            n0 += 1
        try:
            return [self._merge(states, n0)]
        except Unsupported:
            return states

    def _merge(self, states, n0) -> State:
        first = states[0]
        if any(len(s.frames) != len(first.frames) for s in states):
            raise Unsupported("frame depth differs")
        if any(s.guards for s in states):
            raise Unsupported("merge under guard")
        m = State()
        m.frames = [dict(f) for f in first.frames[:-1]] + [{}]
        for fi in range(len(first.frames) - 1):
            for s in states[1:]:
                if s.frames[fi] is not first.frames[fi] and s.frames[fi] != first.frames[fi]:
                    # outer frames are never modified by inner execution
                    pass
        m.pc = list(first.pc[:n0])
        m.defs = set(first.defs)
        conds = []
        for s in states:
            m.defs |= s.defs
            cs = []
            for f in s.pc[n0:]:
                if f.get_id() in s.defs:
                    m.pc.append(f)
                else:
                    cs.append(f)
            conds.append(z3.And(*cs) if cs else z3.BoolVal(True))
        m.pc.append(z3.Or(*conds))
        m.trace = first.trace + ["merge"]

        def pick(vals):  # nested ite over path conditions
            r = vals[-1]
            for c, v in zip(reversed(conds[:-1]), reversed(vals[:-1])):
                r = ite(c, v, r)
            return r

        names = set()
        for s in states:
            names |= set(s.locals)
        for name in names:
            if not all(name in s.locals for s in states):
                # defined on some paths only: keep it only if every use would be on a defining path
                raise Unsupported(f"local {name} not defined on every merged path")
            vals = [s.locals[name] for s in states]
            if all(v is vals[0] for v in vals[1:]):
                m.locals[name] = vals[0]
                continue
            mv = pick(vals)
            m.locals[name] = self.bind(m, mv, name)
        keys = set()
        for s in states:
            keys |= set(s.heap)
        for k in keys:
            maps = []
            for s in states:
                if k in s.heap:
                    maps.append(s.heap[k])
                elif k in self.heap0:
                    maps.append(self.heap0[k])
                else:
                    raise Unsupported("heap key missing")
            if all(x.eq(maps[0]) for x in maps[1:]):
                m.heap[k] = maps[0]
            else:
                r = maps[-1]
                for c, v in zip(reversed(conds[:-1]), reversed(maps[:-1])):
                    r = z3.If(c, v, r)
                nm = z3.Const(fresh_name("H!" + k), r.sort())
                m.define(nm == r)
                m.heap[k] = nm
        allocs = [s.alloc for s in states]
        if all(a is None for a in allocs):
            m.alloc = None
        else:
            allocs = [a if a is not None else self.alloc_map(s) for a, s in zip(allocs, states)]
            if all(a.eq(allocs[0]) for a in allocs[1:]):
                m.alloc = allocs[0]
            else:
                r = allocs[-1]
                for c, v in zip(reversed(conds[:-1]), reversed(allocs[:-1])):
                    r = z3.If(c, v, r)
                na = z3.Const(fresh_name("alloc"), r.sort())
                m.define(na == r)
                m.alloc = na
        m.ghost_log = list(first.ghost_log)
        return m

    # ------------------------------------------------------------------ simple statements
    def exec_Pass(self, s, st):
        return [Outcome("next", st)]

    def exec_Expr(self, s, st):
        if isinstance(s.value, ast.Constant):
            return [Outcome("next", st)]
        if isinstance(s.value, (ast.Yield, ast.YieldFrom)):
            return self.exec_yield(s.value, st)
        self.ev(s.value, st)
        return [Outcome("next", st)]

    def exec_yield(self, y, st):
        if isinstance(y, ast.YieldFrom):
            raise Unsupported("yield from")
        v = self.ev(y.value, st) if y.value is not None else V(NONE, None)
        yl = st.locals.get("$yield")
        if yl is None:
            raise Unsupported("yield outside generator context")
        if getattr(yl, "_pending", False) or isinstance(yl.t.elt, TOpaque):
            yl = self.retype_empty_list(st, yl, v.t)
            st.locals["$yield"] = yl
        th = theory_of(yl.t)
        self.set_list_content(st, yl, th.App(self.list_content(st, yl), th.Unit(box(coerce(v, yl.t.elt)))))
        self.ghost_hook("yield", st, y)
        return [Outcome("next", st)]

    def exec_Return(self, s, st):
        v = self.ev(s.value, st) if s.value is not None else V(NONE, None)
        return [Outcome("return", st, v, line=s.lineno)]

    def exec_Assert(self, s, st):
        c = self.truth(self.ev(s.test, st), st)
        self.may_raise(st, z3.Not(c), "AssertionError", s.test, "assert")
        return [Outcome("next", st)]

    def exec_Raise(self, s, st):
        if s.exc is None:
            exc = st.locals.get("$exc")
            name = exc.z[1] if exc is not None else "Exception"
        else:
            name = self.exc_name(s.exc, st)
        self.may_raise(st, z3.BoolVal(True), name, s, "raise")
        return []

    def exc_name(self, e, st) -> str:
        if isinstance(e, ast.Call):
            for a in e.args:
                try:
                    self.ev(a, st)
                except Unsupported:
                    pass
            e = e.func
        if isinstance(e, ast.Name):
            if e.id in st.locals and isinstance(st.locals[e.id].t, TPy) and st.locals[e.id].z[0] == "exc":
                return st.locals[e.id].z[1]
            return e.id
        if isinstance(e, ast.Attribute):
            return ast.unparse(e)
        raise Unsupported(f"raise {ast.unparse(e)}")

    def exec_Assign(self, s, st):
        if len(s.targets) == 1 and isinstance(s.targets[0], ast.Name):
            self.hint_literal(s.value, s.targets[0].id)
        v = self.ev(s.value, st)
        for tgt in s.targets:
            self.assign(tgt, v, st, s)
        return [Outcome("next", st)]

    def exec_AnnAssign(self, s, st):
        if s.value is None:
            return [Outcome("next", st)]
        t = self.type_from_annotation(s.annotation)
        # type hint for empty literals / comprehensions: the sidecar's field declaration wins over the annotation
        ht = t
        if isinstance(s.target, ast.Attribute):
            try:
                self.spec_mode += 1
                base = self.ev(s.target.value, st.copy())
                ft = self.field_type(base.t.cls, self.mangle(s.target.attr)) if isinstance(base.t, TObj) else None
                if ft is not None:
                    ht = ft[1]
            except Exception:
                pass
            finally:
                self.spec_mode -= 1
        if isinstance(ht, TOpt):
            ht = ht.inner
        if isinstance(s.value, ast.List) and not s.value.elts and isinstance(ht, TList):
            s.value._elt_hint = ht.elt
        if isinstance(s.value, ast.Dict) and not s.value.keys and isinstance(ht, TDict):
            s.value._hint = ht
        if (isinstance(s.value, ast.Call) and isinstance(s.value.func, ast.Name) and s.value.func.id == "set"
                and not s.value.args and isinstance(ht, TSet)):
            s.value._hint = ht
        if isinstance(s.value, ast.ListComp) and isinstance(ht, TList):
            s.value._elt_hint = ht.elt
        v = self.ev(s.value, st)
        if t is not None and isinstance(s.target, ast.Name) and not isinstance(t, TOpaque):
            try:
                v = self.coerce_to(st, v, t)
            except Unsupported:
                pass
        self.assign(s.target, v, st, s)
        return [Outcome("next", st)]

    def hint_literal(self, value, name):
        decl = self.local_decl(name)
        if decl is None:
            return
        if isinstance(value, ast.List) and not value.elts and isinstance(decl, TList):
            value._elt_hint = decl.elt
        if isinstance(value, ast.Dict) and not value.keys and isinstance(decl, TDict):
            value._hint = decl

    def local_decl(self, name):
        c = self.cur_contract()
        if c is not None and name in c.locals:
            return self.parse_type(c.locals[name])
        return None

    def coerce_to(self, st, v: V, t: Type) -> V:
        if isinstance(v.t, TList) and isinstance(v.t.elt, TOpaque) and v.t.elt.name == "empty" and isinstance(t, TList):
            return self.retype_empty_list(st, v, t.elt)
        if isinstance(t, TOpt) and isinstance(v.t, TList) and isinstance(v.t.elt, TOpaque) and isinstance(t.inner, TList):
            return coerce(self.retype_empty_list(st, v, t.inner.elt), t)
        if isinstance(v.t, TSet) and isinstance(v.t.elt, TOpaque) and v.t.elt.name == "empty" and isinstance(t, TSet):
            return self.retype_empty_set(st, v, t)
        if isinstance(v.t, TOpt) and not isinstance(t, (TOpt, TOpaque)) and not self.spec_mode:
            # an Optional value flowing into a slot the sidecar declares non-optional: the declared type is a
            # claim of the contract, so "it is not None here" is an obligation (clause `typing`), not an assumption
            self.oblige(st, z3.Not(opt_is_none(v)), "typing", f"value of type {v.t} stored as {t}", None,
                        note="declared non-optional")
            return coerce(opt_get(v), t)
        if (isinstance(t, TTuple) and isinstance(v.t, TTuple) and len(t.elts) == len(v.t.elts)
                and isinstance(v.z, tuple) and any(isinstance(e.t, TOpt) and not isinstance(te, (TOpt, TOpaque))
                                                   for e, te in zip(v.z, t.elts))):
            # the same, element-wise, for a tuple literal such as (self.__ids.mid, data) stored as tuple[int,bytes]
            return V(t, tuple(self.coerce_to(st, e, te) for e, te in zip(v.z, t.elts)))
        return coerce(v, t)

    def assign(self, tgt, v: V, st: State, node):
        if isinstance(tgt, ast.Name):
            decl = self.local_decl(tgt.id)
            if decl is not None:
                v = self.coerce_to(st, v, decl)
            elif tgt.id in self.sticky_types:
                v = self.coerce_to(st, v, self.sticky_types[tgt.id])
            st.locals[tgt.id] = self.bind(st, v, tgt.id)
            return
        if isinstance(tgt, ast.Attribute):
            base = self.ev(tgt.value, st)
            self.setattr_of(base, tgt.attr, v, st, tgt)
            return
        if isinstance(tgt, ast.Subscript):
            base = self.need_value(self.ev(tgt.value, st), st, tgt)
            if isinstance(base.t, TList):
                if isinstance(tgt.slice, ast.Slice):
                    raise Unsupported("slice assignment")
                th = theory_of(base.t)
                seq = self.list_content(st, base)
                i = self.norm_index(self.as_int(self.ev(tgt.slice, st), st, tgt), th.Len(seq), st, tgt,
                                    "list assignment index")
                self.set_list_content(st, base, th.Upd(seq, i, box(self.coerce_to(st, v, base.t.elt))))
                return
            if isinstance(base.t, TDict):
                k = self.coerce_to(st, self.ev(tgt.slice, st), base.t.key)
                self.dict_store(st, base, k, v)
                return
            raise Unsupported(f"subscript store on {base.t}")
        if isinstance(tgt, (ast.Tuple, ast.List)):
            vals = self.unpack(v, len(tgt.elts), st, node)
            for t2, x in zip(tgt.elts, vals):
                self.assign(t2, x, st, node)
            return
        raise Unsupported(f"assignment target {type(tgt).__name__}")

    def unpack(self, v: V, n: int, st, node) -> list[V]:
        v = self.need_value(v, st, node, "unpacked value")
        if isinstance(v.t, TTuple):
            if len(v.t.elts) != n:
                self.may_raise(st, z3.BoolVal(True), "ValueError", node, "unpack arity")
                raise DeadPath()
            return list(v.z)
        if isinstance(v.t, (TSeq, TList, TBytes)):
            th = theory_of(v.t)
            seq = self.seq_term(v, st)
            self.may_raise(st, th.Len(seq) != n, "ValueError", node, "unpack arity")
            elt = INT if isinstance(v.t, TBytes) else v.t.elt
            return [unbox(th.Idx(seq, I(k)), elt) for k in range(n)]
        raise Unsupported(f"unpack of {v.t}")

    def exec_AugAssign(self, s, st):
        cur = self.ev(_load(s.target), st)
        rhs = self.ev(s.value, st)
        if isinstance(cur.t, TList) and isinstance(s.op, ast.Add):
            # list += iterable mutates in place
            self.list_extend(st, cur, rhs, s)
            return [Outcome("next", st)]
        node = ast.BinOp(left=_load(s.target), op=s.op, right=s.value)
        ast.copy_location(node, s)
        v = self.binop(s.op, cur, rhs, st, node)
        self.assign(s.target, v, st, s)
        return [Outcome("next", st)]

    def exec_Delete(self, s, st):
        for tgt in s.targets:
            if isinstance(tgt, ast.Subscript):
                base = self.need_value(self.ev(tgt.value, st), st, tgt)
                if isinstance(base.t, TDict):
                    k = self.coerce_to(st, self.ev(tgt.slice, st), base.t.key)
                    self.may_raise(st, z3.Not(self.dict_has(st, base, k)), "KeyError", tgt, "del missing key")
                    self.dict_remove(st, base, k)
                    continue
            if isinstance(tgt, ast.Name):
                st.locals.pop(tgt.id, None)
                continue
            raise Unsupported("del target")
        return [Outcome("next", st)]

    def exec_Global(self, s, st):
        raise Unsupported("global statement")

    def exec_FunctionDef(self, s, st):
        st.locals[s.name] = V(TPy("closure"), ("closure", s, self.ctx[-1]))
        return [Outcome("next", st)]

    exec_AsyncFunctionDef = exec_FunctionDef

    # ------------------------------------------------------------------ control flow
    def exec_If(self, s, st):
        c = self.truth(self.ev(s.test, st), st)
        c = z3.simplify(c)
        outs = []
        if not z3.is_false(c):
            st_t = st.copy()
            st_t.pc.append(c)
            st_t.trace.append(f"L{s.lineno}:T")
            if self.feasible(st_t):
                outs.extend(self.exec_block(s.body, st_t))
        if not z3.is_true(c):
            st_f = st
            st_f.pc.append(z3.Not(c))
            st_f.trace.append(f"L{s.lineno}:F")
            if self.feasible(st_f):
                if s.orelse:
                    outs.extend(self.exec_block(s.orelse, st_f))
                else:
                    outs.append(Outcome("next", st_f))
        nexts = [o.st for o in outs if o.kind == "next"]
        if len(nexts) > 1 and self.merge_enabled:
            merged = self.merge_states(nexts)
            outs = [o for o in outs if o.kind != "next"] + [Outcome("next", m) for m in merged]
        return outs

    def exec_Try(self, s, st):
        if s.finalbody:
            return self.exec_try_finally(s, st)
        self.sinks.append([])
        try:
            outs = self.exec_block(s.body, st)
        finally:
            raised = self.sinks.pop()
        result = []
        for oc in outs:
            if oc.kind == "next" and s.orelse:
                result.extend(self.exec_block(s.orelse, oc.st))
            else:
                result.append(oc)
        for oc in raised:
            handled = False
            for h in s.handlers:
                names = self.handler_names(h)
                if names is None or any(self.exc_subclass(oc.value, n) for n in names):
                    hst = oc.st
                    hst.guards = []
                    if h.name:
                        hst.locals[h.name] = V(TPy("exc"), ("exc", oc.value))
                    hst.locals["$exc"] = V(TPy("exc"), ("exc", oc.value))
                    hst.trace.append(f"L{h.lineno}:except {oc.value}")
                    result.extend(self.exec_block(h.body, hst))
                    handled = True
                    break
            if not handled:
                self.sinks[-1].append(oc)
        return result

    def exec_try_finally(self, s, st):
        """try/.../finally: the finally block runs after every way out of the protected part (fall-through, return,
        break/continue, escaping exception); unless it leaves by itself the original way out is resumed."""
        self.sinks.append([])
        try:
            if s.handlers or s.orelse:
                inner = ast.Try(body=s.body, handlers=s.handlers, orelse=s.orelse, finalbody=[])
                ast.copy_location(inner, s)
                outs = self.exec_Try(inner, st)
            else:
                outs = self.exec_block(s.body, st)
        finally:
            raised = self.sinks.pop()
        result = []
        for oc in outs:
            for f in self.exec_block(s.finalbody, oc.st):
                if f.kind == "next":
                    result.append(Outcome(oc.kind, f.st, oc.value, site=oc.site, line=oc.line))
                else:
                    result.append(f)
        for oc in raised:
            hst = oc.st
            hst.guards = []
            hst.trace.append(f"L{s.finalbody[0].lineno}:finally after {oc.value}")
            for f in self.exec_block(s.finalbody, hst):
                if f.kind == "next":
                    self.sinks[-1].append(Outcome("raise", f.st, oc.value, site=oc.site, line=oc.line))
                else:
                    result.append(f)
        return result

    def handler_names(self, h):
        if h.type is None:
            return None
        if isinstance(h.type, ast.Tuple):
            return [ast.unparse(x) for x in h.type.elts]
        return [ast.unparse(h.type)]

    def exc_subclass(self, child, parent):
        return exc_is_subclass(child, parent, self.repo_exc_table())

    def repo_exc_table(self):
        if self._exc_table is None:
            t = {}
            for ci in self.repo.classes.values():
                for b in ci.bases:
                    if b.endswith("Error") or b.endswith("Exception") or b in t:
                        t[ci.name] = b
            self._exc_table = t
        return self._exc_table

    def exec_With(self, s, st):
        raise Unsupported("with statement")

    exec_AsyncWith = exec_With

    def exec_Break(self, s, st):
        return [Outcome("break", st)]

    def exec_Continue(self, s, st):
        return [Outcome("continue", st)]

    # ------------------------------------------------------------------ loops
    def loop_spec(self, s):
        c = self.cur_contract()
        ordinal = self.loop_ordinals.get(id(s))
        if c is None or ordinal is None:
            return None, ordinal
        return c.loops.get(ordinal), ordinal

    def exec_While(self, s, st):
        if s.orelse:
            raise Unsupported("while/else")
        spec, ordinal = self.loop_spec(s)
        if spec is None:
            raise Unsupported(f"while loop #{ordinal} at line {s.lineno} has no invariant in the sidecar")
        if spec.kind not in (None, "while"):
            raise StaleContract(f"loop #{ordinal} is a while loop, sidecar says {spec.kind}")

        def guard(stx):
            return self.truth(self.ev(s.test, stx), stx)

        return self.run_loop(s, st, spec, ordinal, guard, lambda stx: None, s.body, None)

    def exec_For(self, s, st):
        if s.orelse:
            raise Unsupported("for/else")
        it = self.ev(s.iter, st)
        spec, ordinal = self.loop_spec(s)
        P = prelude()
        # ---- static unrolling --------------------------------------------------------
        items = self.static_items(it, st)
        if items is not None and (spec is None or spec.unroll) and len(items) <= 64:
            return self.unroll(s, st, items)
        if spec is None:
            raise Unsupported(f"for loop #{ordinal} at line {s.lineno} has no invariant in the sidecar")
        if spec.kind not in (None, "for"):
            raise StaleContract(f"loop #{ordinal} is a for loop, sidecar says {spec.kind}")
        idx_name = spec.index or (s.target.id if isinstance(s.target, ast.Name) and self.is_range(it) else f"_i{ordinal}")
        if self.is_range(it):
            _, lo, hi, step = it.z
            if not z3.is_int_value(step) or step.as_long() == 0:
                raise Unsupported("range with symbolic step")
            stepv = step.as_long()
            lo_b = self.bind(st, V(INT, lo), "lo").z
            hi_b = self.bind(st, V(INT, hi), "hi").z
            st.locals[idx_name] = V(INT, lo_b)
            had_target = isinstance(s.target, ast.Name) and s.target.id in st.locals and s.target.id != idx_name
            tname = s.target.id if isinstance(s.target, ast.Name) else None

            def guard(stx):
                i = stx.locals[idx_name].z
                return i < hi_b if stepv > 0 else i > hi_b

            def head(stx):
                i = stx.locals[idx_name].z
                if idx_name != tname:
                    self.assign(s.target, V(INT, i), stx, s)
                stx.locals["$next_" + idx_name] = V(INT, i + stepv)

            def auto_inv(stx):
                i = stx.locals[idx_name].z
                if stepv == 1:
                    return [i >= lo_b, z3.Or(i <= hi_b, z3.And(hi_b < lo_b, i == lo_b))]
                if stepv > 0:
                    return [i >= lo_b, (i - lo_b) % stepv == 0, z3.Or(i < hi_b + stepv, z3.And(hi_b < lo_b, i == lo_b))]
                return [i <= lo_b, (lo_b - i) % (-stepv) == 0]

            def variant(stx):
                i = stx.locals[idx_name].z
                return (hi_b - i) if stepv > 0 else (i - hi_b)

            def advance(stx):
                nxt = stx.locals.pop("$next_" + idx_name)
                stx.locals[idx_name] = nxt

            def at_exit(stx):
                # python leaves the loop variable at its last assigned value
                if idx_name == tname:
                    i = stx.locals[idx_name].z
                    ran = i != lo_b
                    stx.locals[idx_name] = V(INT, z3.If(ran, i - stepv, i))  # unbound if never ran; unused then

            return self.run_loop(s, st, spec, ordinal, guard, head, s.body, (auto_inv, variant, advance, at_exit))
        # ---- iteration over a sequence value -------------------------------------------
        seqv = self.iter_sequence(it, st, s)
        th, seq, elt, post = seqv
        seq_b = z3.Const(fresh_name("iter"), seq.sort())
        st.define(seq_b == seq)
        st.locals[idx_name] = V(INT, I(0))
        src_list = it if isinstance(it.t, TList) else None

        def guard(stx):
            return stx.locals[idx_name].z < th.Len(seq_b)

        def head(stx):
            i = stx.locals[idx_name].z
            item = unbox(th.Idx(seq_b, i), elt)
            if post is not None:
                item = post(stx, i, item)
            self.typing_facts(stx, item) if not isinstance(item.t, TTuple) else None
            self.assign(s.target, item, stx, s)

        def auto_inv(stx):
            i = stx.locals[idx_name].z
            facts = [i >= 0, i <= th.Len(seq_b)]
            if src_list is not None:
                facts.append(self.list_content(stx, src_list) == seq_b)  # iterated list is not mutated
            return facts

        def variant(stx):
            return th.Len(seq_b) - stx.locals[idx_name].z

        def advance(stx):
            stx.locals[idx_name] = V(INT, stx.locals[idx_name].z + 1)

        st.locals["$iter%d" % ordinal] = V(TSeq(elt) if not isinstance(it.t, TBytes) else BYTES, seq_b)
        return self.run_loop(s, st, spec, ordinal, guard, head, s.body, (auto_inv, variant, advance, None))

    def is_range(self, v: V):
        return isinstance(v.t, TPy) and v.z[0] == "range"

    def static_items(self, it: V, st):
        if isinstance(it.t, TTuple):
            return list(it.z)
        if self.is_range(it):
            _, lo, hi, step = it.z
            lo, hi, step = z3.simplify(lo), z3.simplify(hi), z3.simplify(step)
            if z3.is_int_value(lo) and z3.is_int_value(hi) and z3.is_int_value(step):
                return [V(INT, I(k)) for k in range(lo.as_long(), hi.as_long(), step.as_long())]
        if isinstance(it.t, TPy) and it.z[0] == "static_items":
            return list(it.z[1])
        return None

    def unroll(self, s, st, items):
        live = [st]
        done = []
        for item in items:
            nxt = []
            for cur in live:
                try:
                    self.assign(s.target, item, cur, s)
                except DeadPath:
                    continue
                for oc in self.exec_block(s.body, cur):
                    if oc.kind in ("next", "continue"):
                        nxt.append(oc.st)
                    elif oc.kind == "break":
                        done.append(Outcome("next", oc.st))
                    else:
                        done.append(oc)
            live = nxt
            if len(live) > 1 and self.merge_enabled:
                live = self.merge_states(live)
            if not live:
                break
        done.extend(Outcome("next", x) for x in live)
        return done

    def iter_sequence(self, it: V, st, node):
        """(theory, seq term, element type, postprocess) for an iterable value."""
        it = self.need_value(it, st, node, "iterable")
        if isinstance(it.t, (TBytes, TSeq)):
            th = theory_of(it.t)
            return th, it.z, (INT if isinstance(it.t, TBytes) else it.t.elt), None
        if isinstance(it.t, TList):
            if isinstance(it.t.elt, TOpaque) and it.t.elt.name == "empty":
                raise Unsupported("iteration over an untyped empty list")
            th = theory_of(it.t)
            return th, self.list_content(st, it), it.t.elt, None
        if isinstance(it.t, TSet):
            # snapshot enumeration of a set in an arbitrary order: duplicate-free sequence covering the domain
            th = seq_theory(it.t.elt)
            es = sort_of(it.t.elt)
            items = z3.Const(fresh_name("setitems"), th.S)
            dom = self.set_dom(st, it)
            k = z3.Int(fresh_name("k"))
            x = z3.Const(fresh_name("x"), es)
            pos = prelude().func("setpos!" + fresh_name("f"), es, z3.IntSort())
            st.pc.append(z3.ForAll([k], z3.Implies(z3.And(0 <= k, k < th.Len(items)),
                                                   z3.And(z3.Select(dom, th.Idx(items, k)), pos(th.Idx(items, k)) == k)),
                                   patterns=[th.Idx(items, k)]))
            st.pc.append(z3.ForAll([x], z3.Implies(z3.Select(dom, x),
                                                   z3.And(0 <= pos(x), pos(x) < th.Len(items), th.Idx(items, pos(x)) == x)),
                                   patterns=[z3.Select(dom, x)]))
            st.pc.append(th.Len(items) == self.set_size(st, it))
            return th, items, it.t.elt, None
        if isinstance(it.t, TPy) and it.z[0] == "enumerate":
            th, seq, elt, post = self.iter_sequence(it.z[1], st, node)
            start = it.z[2]

            def post2(stx, i, item, post=post):
                if post is not None:
                    item = post(stx, i, item)
                return V(TTuple((INT, item.t)), (V(INT, i + start), item))
            return th, seq, elt, post2
        if isinstance(it.t, TPy) and it.z[0] == "filter":
            # filter(pred, xs): the subsequence of xs whose items satisfy pred (pred is evaluated as a specification:
            # total, no side effect), described by an order-preserving index map in both directions
            _, pred, src = it.z
            th, seq, elt, post = self.iter_sequence(src, st, node)
            if post is not None:
                raise Unsupported("filter over a decorated iterator")
            r = z3.Const(fresh_name("filtered"), th.S)
            k, j = z3.Ints(fresh_name("k") + " " + fresh_name("j"))
            src_of = prelude().func("filtsrc!" + fresh_name("f"), z3.IntSort(), z3.IntSort())
            dst_of = prelude().func("filtdst!" + fresh_name("f"), z3.IntSort(), z3.IntSort())

            def holds(term):
                self.spec_mode += 1
                try:
                    return self.truth(self.apply(pred, [unbox(term, elt)], {}, st, node), st)
                finally:
                    self.spec_mode -= 1
            st.pc.append(z3.And(0 <= th.Len(r), th.Len(r) <= th.Len(seq)))
            st.pc.append(z3.ForAll([k], z3.Implies(z3.And(0 <= k, k < th.Len(r)),
                                                   z3.And(0 <= src_of(k), src_of(k) < th.Len(seq),
                                                          th.Idx(seq, src_of(k)) == th.Idx(r, k), holds(th.Idx(r, k)),
                                                          dst_of(src_of(k)) == k)),
                                   patterns=[th.Idx(r, k)]))
            st.pc.append(z3.ForAll([k, j], z3.Implies(z3.And(0 <= k, k < j, j < th.Len(r)), src_of(k) < src_of(j)),
                                   patterns=[z3.MultiPattern(src_of(k), src_of(j))]))
            st.pc.append(z3.ForAll([j], z3.Implies(z3.And(0 <= j, j < th.Len(seq), holds(th.Idx(seq, j))),
                                                   z3.And(0 <= dst_of(j), dst_of(j) < th.Len(r),
                                                          th.Idx(r, dst_of(j)) == th.Idx(seq, j), src_of(dst_of(j)) == j)),
                                   patterns=[th.Idx(seq, j)]))
            return th, r, elt, None
        raise Unsupported(f"iteration over {it.t}: {self.src(node)}")

    def run_loop(self, s, st, spec, ordinal, guard, head, body, auto):
        """Cut the loop with its invariant: entry, havoc, one arbitrary iteration, exit."""
        auto_inv, variant_fn, advance, at_exit = auto if auto else (None, None, None, None)
        unit_clause = f"loop[{ordinal}]"
        # ghost statements before the loop
        for g in spec.ghost_before:
            self.exec_ghost(g, st)
        for name, ttxt in spec.types.items():
            t = self.parse_type(ttxt)
            if name in st.locals:
                st.locals[name] = self.coerce_to(st, st.locals[name], t)
            self.sticky_types[name] = t
        # 1. invariant on entry
        for k, inv in enumerate(spec.invariant):
            self.oblige_spec(st, inv, f"{unit_clause}.invariant[{k}]", "entry", s)
        # 2. havoc loop targets
        hst = st.copy()
        hst.trace.append(f"L{s.lineno}:loop")
        targets = assigned_names(body) | (assigned_names([s.target]) if isinstance(s, ast.For) else set())
        targets |= {n for g in spec.ghost_end for n in assigned_names(ast.parse(g).body)}
        for name in sorted(targets):
            if name in hst.locals:
                cur = hst.locals[name]
                if isinstance(cur.t, TPy):
                    continue
                t = self.sticky_types.get(name) or self.local_decl(name) or cur.t
                if isinstance(t, TNone):
                    raise Unsupported(f"loop-carried local {name} is None before the loop: declare its type in the sidecar")
                hst.locals[name] = fresh(t, name)
                self.typing_facts(hst, hst.locals[name]) if not isinstance(t, TTuple) else None
            elif self.local_decl(name) is not None and not name.startswith("$"):
                # assigned inside the loop only, declared in the sidecar: an arbitrary value at the loop head
                # (a read before the first assignment would be an UnboundLocalError, which is not modelled)
                t = self.local_decl(name)
                hst.locals[name] = fresh(t, name)
                self.typing_facts(hst, hst.locals[name]) if not isinstance(t, TTuple) else None
                self.note_assumption(f"local {name} is read only after it has been assigned (UnboundLocalError not modelled)")
        self._cur_loop_head = head
        self.havoc_heap_for_loop(s, body, st, hst, spec)
        self._havoc_index(s, spec, ordinal, hst)
        facts = []
        if auto_inv is not None:
            facts.extend(auto_inv(hst))
        for f in facts:
            hst.pc.append(f)
        for inv in spec.invariant:
            hst.pc.append(self.ev_spec(inv, hst))
        # loop frame: at every loop head the function's own modifies clause holds relative to function entry
        # (objects allocated at entry and outside the declared frame are unchanged).  Assumed at the havocked head,
        # proved after each iteration; at loop entry it is an obligation too.
        cur_c = self.cur_contract()
        use_frame = cur_c is not None and self.entry_state is not None and not self.inline_stack
        if use_frame:
            for key, goal in self.frame_goals(cur_c, st, self.entry_state):
                self.oblige(st, goal, f"{unit_clause}.frame", f"entry, frame of {key}", s)
            for key, goal in self.frame_goals(cur_c, hst, self.entry_state):
                hst.pc.append(goal)
        # 3. exit path
        outs = []
        ex = hst.copy()
        g_exit = guard(ex)
        ex.pc.append(z3.Not(g_exit))
        if self.feasible(ex):
            if at_exit is not None:
                at_exit(ex)
            ex.locals.pop("$iter%d" % ordinal, None) if ordinal is not None else None
            outs.append(Outcome("next", ex))
        # 4. one arbitrary iteration
        it = hst
        g_in = guard(it)
        it.pc.append(g_in)
        v0 = None
        forever = spec.decreases in ("forever", "unproved")   # service loop (ended only by cancellation): no variant
        if spec.decreases == "unproved":
            # partial correctness only for this loop; said out loud in the evidence
            self.note_assumption(f"termination of loop #{ordinal} of {self.unit} is not proved (decreases='unproved')")
        if forever:
            v0 = None
        elif spec.decreases is not None:
            v0 = self.bind(it, V(INT, self.as_int(self.ev_spec_val(spec.decreases, it), it, s)), "variant").z
        elif variant_fn is not None:
            v0 = self.bind(it, V(INT, variant_fn(it)), "variant").z
        else:
            raise Unsupported(f"loop #{ordinal} has no decreases clause")
        if self.feasible(it):
            try:
                head(it)
                body_outs = self.exec_block(body, it)
            except DeadPath:
                body_outs = []
            for oc in body_outs:
                if oc.kind in ("next", "continue"):
                    e = oc.st
                    for gsrc in spec.ghost_end:
                        self.exec_ghost(gsrc, e)
                    if advance is not None:
                        advance(e)
                    if auto_inv is not None:
                        for k, f in enumerate(auto_inv(e)):
                            self.oblige(e, f, f"{unit_clause}.auto[{k}]", "preserved", s)
                    for k, inv in enumerate(spec.invariant):
                        self.oblige_spec(e, inv, f"{unit_clause}.invariant[{k}]", "preserved", s)
                    if use_frame:
                        for key, goal in self.frame_goals(cur_c, e, self.entry_state):
                            self.oblige(e, goal, f"{unit_clause}.frame", f"preserved, frame of {key}", s)
                    if not forever:
                        if spec.decreases is not None:
                            v1 = self.as_int(self.ev_spec_val(spec.decreases, e), e, s)
                        else:
                            v1 = variant_fn(e)
                        self.oblige(e, z3.And(v0 >= 0, v1 < v0), f"{unit_clause}.decreases", "decreases", s)
                elif oc.kind == "break":
                    oc.st.locals.pop("$iter%d" % ordinal, None) if ordinal is not None else None
                    outs.append(Outcome("next", oc.st))
                else:
                    outs.append(oc)
        return outs

    def _havoc_index(self, s, spec, ordinal, hst):
        if not isinstance(s, ast.For):
            return
        name = spec.index or (s.target.id if isinstance(s.target, ast.Name) else None)
        cands = [n for n in (spec.index, f"_i{ordinal}", s.target.id if isinstance(s.target, ast.Name) else None) if n]
        for n in cands:
            if n in hst.locals and isinstance(hst.locals[n].t, TInt):
                hst.locals[n] = fresh(INT, n)

    def havoc_heap_for_loop(self, s, body, st, hst, spec):
        """Havoc exactly the heap locations the body may write: (reference evaluated at loop entry,
        map) for stable receivers, the whole map otherwise."""
        writes = self.write_targets(body, st)
        for mod in spec.modifies:
            writes.append(("expr", mod))
        for kind, *rest in writes:
            if kind == "field":
                recv_expr, attr, stable = rest
                self.havoc_field(st, hst, recv_expr, attr, stable)
            elif kind == "content":
                recv_expr, stable = rest
                self.havoc_content(st, hst, recv_expr, stable)
            elif kind == "map":
                key, = rest
                if key in hst.heap or key in self.heap0:
                    m = hst.heap.get(key, self.heap0.get(key))
                    hst.heap[key] = z3.Const(fresh_name("H!" + key), m.sort())
            elif kind == "expr":
                self.havoc_modifies_entry(rest[0], st, hst)
            elif kind == "all":
                for key in list(set(hst.heap) | set(self.heap0)):
                    m = hst.heap.get(key, self.heap0.get(key))
                    hst.heap[key] = z3.Const(fresh_name("H!" + key), m.sort())

    def havoc_field(self, st, hst, recv_expr, attr, stable):
        try:
            base = self.ev(recv_expr, st.copy())
        except (Unsupported, DeadPath):
            base = None
        if base is not None and isinstance(base.t, TOpt):
            base = opt_get(base)
        if base is None and isinstance(recv_expr, ast.Name):
            # a local bound inside the loop body (ochunk = queue[pos]): its declared type (sidecar `locals`) names the
            # class; every object's field of that name is havoced
            c = self.cur_contract()
            ttxt = c.locals.get(recv_expr.id) if c is not None else None
            t = self.parse_type(ttxt) if ttxt else None
            if isinstance(t, TOpt):
                t = t.inner
            if isinstance(t, TObj):
                ft = self.field_type(t.cls, self.mangle(attr))
                if ft is None:
                    raise Unsupported(f"write to undeclared field {t.cls}.{attr}")
                key = f"{ft[0]}.{self.mangle(attr)}"
                m = self.heap_map(hst, key, sort_of(ft[1]))
                hst.heap[key] = z3.Const(fresh_name("H!" + key), m.sort())
                return
        if base is None or not isinstance(base.t, TObj):
            if base is not None and isinstance(base.t, TOpaque):
                return
            raise Unsupported(f"cannot resolve write target {ast.unparse(recv_expr)}.{attr}")
        ft = self.field_type(base.t.cls, self.mangle(attr))
        if ft is None:
            raise Unsupported(f"write to undeclared field {base.t.cls}.{attr}")
        decl, ftype = ft
        key = f"{decl}.{self.mangle(attr)}"
        m = self.heap_map(hst, key, sort_of(ftype))
        if stable:
            nv = fresh(ftype, attr)
            nm = z3.Const(fresh_name("H!" + key), m.sort())
            hst.define(nm == z3.Store(m, base.z, box(nv)))
            hst.heap[key] = nm
            self.typing_facts(hst, nv) if not isinstance(ftype, TTuple) else None
        else:
            hst.heap[key] = z3.Const(fresh_name("H!" + key), m.sort())

    def havoc_content(self, st, hst, recv_expr, stable):
        try:
            base = self.ev(recv_expr, st.copy())
        except (Unsupported, DeadPath):
            # the receiver may be bound by the loop header itself (for k, v in ...: v.discard(x)): bind the targets on
            # a scratch copy to learn its container type, then havoc the whole map of that type
            base = None
            head = getattr(self, "_cur_loop_head", None)
            if head is not None:
                scratch = hst.copy()
                try:
                    self.spec_mode += 1
                    head(scratch)
                    base = self.ev(recv_expr, scratch)
                except Exception:
                    base = None
                finally:
                    self.spec_mode -= 1
            if base is None:
                raise Unsupported(f"cannot resolve mutated container {ast.unparse(recv_expr)}")
            stable = False
        if isinstance(base.t, TOpt):
            base = opt_get(base)
        keys = []
        if isinstance(base.t, TList):
            if isinstance(base.t.elt, TOpaque) and base.t.elt.name == "empty":
                raise Unsupported(f"list {ast.unparse(recv_expr)} is still untyped at the loop: declare it in locals")
            keys = [(self.list_key(base.t.elt), theory_of(base.t).S)]
        elif isinstance(base.t, TDict):
            name, ks, vs = self.dict_keys(base.t)
            keys = [(name + ".dom", z3.ArraySort(ks, z3.BoolSort())), (name + ".val", z3.ArraySort(ks, vs))]
        elif isinstance(base.t, TSet):
            name, es = self.set_key(base.t)
            keys = [(name, z3.ArraySort(es, z3.BoolSort()))]
        elif isinstance(base.t, TOpaque):
            return
        else:
            raise Unsupported(f"mutated container of type {base.t}")
        for key, vsort in keys:
            m = self.heap_map(hst, key, vsort)
            if stable:
                nm = z3.Const(fresh_name("H!" + key), m.sort())
                hst.define(nm == z3.Store(m, base.z, z3.Const(fresh_name("content"), vsort)))
                hst.heap[key] = nm
            else:
                hst.heap[key] = z3.Const(fresh_name("H!" + key), m.sort())

    MUTATORS = {"append", "appendleft", "insert", "pop", "popleft", "extend", "remove", "clear", "add", "discard",
                "update", "setdefault", "sort", "reverse"}

    def write_targets(self, body, st):
        """Syntactic over-approximation of the heap locations written by `body`."""
        out = []
        assigned = assigned_names(body)
        eng = self

        def stable(expr):
            """Receiver denotes the same object on every iteration."""
            if isinstance(expr, ast.Name):
                return expr.id not in assigned
            if isinstance(expr, ast.Attribute):
                if not stable(expr.value):
                    return False
                # the attribute itself must not be re-assigned in the loop
                for n in ast.walk(ast.Module(body=list(body), type_ignores=[])):
                    if isinstance(n, ast.Attribute) and isinstance(n.ctx, ast.Store) and n.attr == expr.attr:
                        return False
                return True
            return False

        class Vis(ast.NodeVisitor):
            def visit_Attribute(self, n):
                if isinstance(n.ctx, ast.Store):
                    out.append(("field", n.value, n.attr, stable(n.value)))
                self.generic_visit(n)

            def visit_Subscript(self, n):
                if isinstance(n.ctx, (ast.Store, ast.Del)):
                    out.append(("content", n.value, stable(n.value)))
                self.generic_visit(n)

            def visit_AugAssign(self, n):
                if isinstance(n.target, ast.Name) and isinstance(n.op, ast.Add):
                    # x += [...] on a list mutates in place; harmless over-approximation otherwise
                    v = st.locals.get(n.target.id)
                    if v is not None and isinstance(v.t, TList):
                        out.append(("content", ast.Name(id=n.target.id, ctx=ast.Load()), False))
                self.generic_visit(n)

            def visit_Call(self, n):
                f = n.func
                is_container_call = isinstance(f, ast.Attribute) and f.attr in eng.MUTATORS
                if is_container_call:
                    # a method of a repo class may share its name with a list/set mutator (JitterBuffer.remove)
                    try:
                        eng.spec_mode += 1
                        bt = eng.ev(f.value, st.copy()).t
                    except Exception:
                        bt = None
                    finally:
                        eng.spec_mode -= 1
                    if isinstance(bt, TOpt):
                        bt = bt.inner
                    if isinstance(bt, TObj):
                        is_container_call = False
                if is_container_call:
                    out.append(("content", f.value, stable(f.value)))
                else:
                    for w in eng.call_write_effects(n, st, stable):
                        out.append(w)
                self.generic_visit(n)

            def visit_Lambda(self, n):
                pass

            def visit_Yield(self, n):
                # a yield appends to the generator's list of yielded values
                out.append(("content", ast.Name(id="$yield", ctx=ast.Load()), True))
                self.generic_visit(n)

        for stmt in body:
            Vis().visit(stmt)
        return out


class StaleContract(Exception):
    pass


def _load(tgt):
    import copy
    t = copy.deepcopy(tgt)
    for n in ast.walk(t):
        if hasattr(n, "ctx"):
            n.ctx = ast.Load()
    return t
