"""Contract registry: the API sidecar files under /verif/contracts use.

A contract is data plus expressions in a restricted Python expression language with two
readings: translated to SMT by the engine (proof) and evaluated on real objects by
pyvc.runtime (replay, monitoring).  This module must stay importable without z3.
"""
from __future__ import annotations

from dataclasses import dataclass, field
from typing import Any, Optional


@dataclass
class LoopSpec:
    invariant: list[str] = field(default_factory=list)
    decreases: Optional[str] = None
    index: Optional[str] = None       # name the invariant uses for the iteration index of a for-loop
    types: dict[str, str] = field(default_factory=dict)   # declared types of loop-carried locals
    unroll: bool = False
    ghost_before: list[str] = field(default_factory=list)  # ghost statements (python source)
    ghost_end: list[str] = field(default_factory=list)
    modifies: list[str] = field(default_factory=list)      # extra heap locations havocked
    kind: Optional[str] = None        # 'while' | 'for' (stale-contract detection)


@dataclass
class Contract:
    qual: str
    params: dict[str, str] = field(default_factory=dict)
    returns: Optional[str] = None
    requires: list[str] = field(default_factory=list)
    ensures: list[str] = field(default_factory=list)
    raises: dict[str, Optional[str]] = field(default_factory=dict)
    raise_ensures: dict[str, list[str]] = field(default_factory=dict)  # postconditions on exceptional exit
    modifies: list[str] = field(default_factory=list)
    loops: dict[int, LoopSpec] = field(default_factory=dict)
    locals: dict[str, str] = field(default_factory=dict)
    tags: list[str] = field(default_factory=list)
    witness: list[dict] = field(default_factory=list)
    inline: bool = False        # callers inline the body (contract only used when verifying it)
    fresh_result: bool = False  # result is a freshly allocated object
    trusted: bool = False       # assumed, not verified (listed in evidence)
    ghost: dict[str, list[str]] = field(default_factory=dict)  # program-point label -> ghost stmts
    note: str = ""
    builder: Optional[str] = None   # replay: name of state builder in replay/builders.py
    invariants: bool = True     # class invariants are part of requires/ensures (methods)
    opaque_calls: list[str] = field(default_factory=list)  # callee names treated as havoc-nothing no-raise
    merge: bool = True          # merge states at control-flow joins (False: one VC set per path)
    instances: list[dict] = field(default_factory=list)   # named integer constants; the unit is verified once per entry
    # re-entrancy discipline for event emitters: clauses that must hold whenever the body calls self.emit() (the state a
    # listener observes); with any at_emit clause the unit also owes "no declared field of self is written after the emit"
    at_emit: list[str] = field(default_factory=list)
    # callee name -> clauses owed at every call of that callee in this unit's own body; evaluated in the caller's state with
    # the callee's parameter names bound to the actual arguments (what is passed on, stated where the data is known)
    at_call: dict[str, list[str]] = field(default_factory=dict)
    # methods of opaque (external) objects that are read-only queries: the result is an uninterpreted function of the
    # receiver, written uf_any('method', receiver) in clauses
    pure_opaque: list[str] = field(default_factory=list)


@dataclass
class ClassSpec:
    qual: str
    fields: dict[str, str] = field(default_factory=dict)
    invariant: list[str] = field(default_factory=list)
    ghost_fields: dict[str, str] = field(default_factory=dict)
    init_params: dict[str, str] = field(default_factory=dict)


@dataclass
class Lemma:
    name: str
    vars: dict[str, str]
    hyps: list[str]
    goal: list[str]
    tags: list[str] = field(default_factory=list)
    note: str = ""


@dataclass
class Harness:
    """A small Python function living in the sidecar, verified against callee contracts
    only: composition lemmas such as parse(bytes(x)) == x."""
    name: str
    module: str          # repo module whose namespace the harness body is resolved in
    source: str          # 'def h(x): ...'
    contract: Contract = None
    tags: list[str] = field(default_factory=list)


@dataclass
class SpecFn:
    name: str
    params: list[str]
    body: str            # expression; evaluated with params bound (macro)
    types: Optional[list[str]] = None


class Registry:
    def __init__(self):
        self.contracts: dict[str, Contract] = {}
        self.classes: dict[str, ClassSpec] = {}
        self.lemmas: dict[str, Lemma] = {}
        self.harnesses: dict[str, Harness] = {}
        self.specfns: dict[str, SpecFn] = {}
        self.unit_order: list[tuple[str, str]] = []

    def contract(self, qual, **kw) -> Contract:
        loops = {}
        for k, v in (kw.pop("loops", None) or {}).items():
            if isinstance(v, dict):
                v = dict(v)
                inv = v.get("invariant", [])
                if isinstance(inv, str):
                    v["invariant"] = [inv]
                v = LoopSpec(**v)
            loops[int(k)] = v
        for key in ("requires", "ensures", "modifies", "tags", "at_emit"):
            if isinstance(kw.get(key), str):
                kw[key] = [kw[key]]
        r = kw.get("raises")
        if isinstance(r, (set, list, tuple)):
            kw["raises"] = {e: None for e in r}
        c = Contract(qual=qual, loops=loops, **kw)
        if qual in self.contracts:
            raise ValueError(f"duplicate contract for {qual}")
        self.contracts[qual] = c
        self.unit_order.append(("contract", qual))
        return c

    def klass(self, qual, **kw) -> ClassSpec:
        inv = kw.get("invariant")
        if isinstance(inv, str):
            kw["invariant"] = [inv]
        cs = ClassSpec(qual=qual, **kw)
        prev = self.classes.get(qual)
        if prev is not None:
            # several sidecars may describe different aspects of one large class: declarations are merged
            for name, t in cs.fields.items():
                if name in prev.fields and prev.fields[name] != t:
                    raise ValueError(f"{qual}.{name} declared as {prev.fields[name]} and as {t}")
            prev.fields.update(cs.fields)
            prev.ghost_fields.update(cs.ghost_fields)
            prev.invariant.extend(x for x in cs.invariant if x not in prev.invariant)
            return prev
        self.classes[qual] = cs
        return cs

    def lemma(self, name, vars, hyps, goal, tags=(), note="") -> Lemma:
        if isinstance(hyps, str):
            hyps = [hyps]
        if isinstance(goal, str):
            goal = [goal]
        lm = Lemma(name, dict(vars), list(hyps), list(goal), list(tags), note)
        self.lemmas[name] = lm
        self.unit_order.append(("lemma", name))
        return lm

    def harness(self, name, module, source, tags=(), **kw) -> Harness:
        c = self.contract("harness:" + name, **kw)
        self.unit_order.pop()
        c.tags = list(tags)
        h = Harness(name, module, source, c, list(tags))
        self.harnesses[name] = h
        self.unit_order.append(("harness", name))
        return h

    def spec(self, name, params, body, types=None) -> SpecFn:
        sf = SpecFn(name, list(params), body, types)
        self.specfns[name] = sf
        return sf


def split_unit(name: str):
    """'qual@CAP=16,K=2' -> ('qual', {'CAP': 16, 'K': 2})"""
    base, _, suffix = name.partition("@")
    inst = {}
    if suffix:
        for part in suffix.split(","):
            k, _, v = part.partition("=")
            inst[k] = int(v) if v.lstrip("-").isdigit() else v     # ints are constants, names are type parameters
    return base, inst


def unit_name(base: str, inst: dict) -> str:
    if not inst:
        return base
    return base + "@" + ",".join(f"{k}={v}" for k, v in sorted(inst.items()))


def active_clauses(clauses, inst: dict):
    """A clause may be prefixed '@NAME=value: ' to apply to one instance only."""
    out = []
    for c in clauses:
        if c.startswith("@"):
            head, _, body = c.partition(":")
            k, _, v = head[1:].partition("=")
            if str(inst.get(k.strip())) != v.strip():
                continue
            c = body.strip()
        out.append(c)
    return out


REGISTRY = Registry()
contract = REGISTRY.contract
klass = REGISTRY.klass
lemma = REGISTRY.lemma
harness = REGISTRY.harness
spec = REGISTRY.spec


def load_sidecars(directory: str) -> Registry:
    """Import every sidecar file once (plain exec, no package machinery needed)."""
    import os
    import runpy
    if getattr(REGISTRY, "_loaded", None) == directory:
        return REGISTRY
    for fn in sorted(os.listdir(directory)):
        if fn.endswith(".py") and not fn.startswith("_"):
            runpy.run_path(os.path.join(directory, fn), run_name="sidecar_" + fn[:-3])
    REGISTRY._loaded = directory
    return REGISTRY


# run-time readings of uninterpreted spec functions (uf_str('tag', ...)), registered by sidecars
RUNTIME_FNS: dict = {}


def runtime_fn(tag: str, fn):
    RUNTIME_FNS[tag] = fn
