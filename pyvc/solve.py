"""Discharge verification conditions: z3 (E-matching only, deterministic rlimit), cvc5 on
unknown via SMT-LIB export.  unsat = discharged; anything else is *not* a verdict."""
from __future__ import annotations

import os
import subprocess
import tempfile
import time

import z3

from .prelude import prelude

RLIMIT = int(os.environ.get("PYVC_RLIMIT", "40000000"))
CVC5 = "/usr/bin/cvc5"


def make_solver(rlimit=RLIMIT, mbqi=False):
    s = z3.SimpleSolver()
    s.set("smt.mbqi", mbqi)
    s.set("smt.auto_config", False)
    s.set("smt.ematching", True)
    s.set("rlimit", rlimit)
    s.set("timeout", 120000)
    s.set("smt.qi.eager_threshold", 100.0)
    return s


class Result:
    __slots__ = ("status", "backend", "time", "model", "reason", "smt2")

    def __init__(self, status, backend, t, model=None, reason="", smt2=None):
        self.status, self.backend, self.time, self.model, self.reason, self.smt2 = status, backend, t, model, reason, smt2


def check(hyps, goal, extra=(), want_model=True, try_cvc5=True, rlimit=RLIMIT) -> Result:
    P = prelude()
    t0 = time.time()
    s = make_solver(rlimit)
    for a in P.axioms:
        s.add(a)
    for f in extra:
        s.add(f)
    for h in hyps:
        s.add(h)
    s.add(z3.Not(goal))
    r = s.check()
    dt = time.time() - t0
    if r == z3.unsat:
        return Result("unsat", "z3", dt)
    reason = s.reason_unknown() if r == z3.unknown else "sat"
    model = None
    if want_model:
        try:
            model = s.model()
        except z3.Z3Exception:
            model = None
    if r == z3.unknown and try_cvc5 and ("rlimit" in reason or "timeout" in reason or "canceled" in reason
                                         or "incomplete" in reason):
        smt2 = s.to_smt2()
        c = run_cvc5(smt2)
        if c == "unsat":
            return Result("unsat", "cvc5", time.time() - t0)
    return Result("sat" if r == z3.sat else "unknown", "z3", dt, model, reason)


def run_cvc5(smt2: str, timeout_s=20) -> str:
    if not os.path.exists(CVC5):
        return "unknown"
    text = "(set-logic ALL)\n" + smt2
    with tempfile.NamedTemporaryFile("w", suffix=".smt2", delete=False, dir=os.environ.get("PYVC_TMP")) as fh:
        fh.write(text)
        path = fh.name
    try:
        out = subprocess.run([CVC5, "--tlimit=%d" % (timeout_s * 1000), path], capture_output=True, text=True,
                             timeout=timeout_s + 5)
        first = out.stdout.strip().splitlines()[0] if out.stdout.strip() else "unknown"
        return first if first in ("sat", "unsat") else "unknown"
    except Exception:
        return "unknown"
    finally:
        try:
            os.unlink(path)
        except OSError:
            pass
