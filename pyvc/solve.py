"""Discharge verification conditions with a small portfolio of back ends.

unsat from any back end = discharged (each is a sound refutation procedure for the same formula);
anything else is *not* a verdict.  The portfolio exists because E-matching runs are sensitive to assertion
order, preprocessing and seeds: the same VC was seen to take 0.3 s or > 120 s in z3 depending on how it was fed.
Every stage is bounded by a deterministic resource limit (not wall time), so verdicts do not depend on load.

  stage 1  z3 SimpleSolver (E-matching only, no MBQI), assertions added directly, small rlimit
           -> also yields the candidate counter-model used for replay
  stage 2  z3 command line on the SMT-LIB export (default preprocessing), rlimit
  stage 3  cvc5 on the same text, --rlimit
  stage 4  z3 command line with other seeds
"""
from __future__ import annotations

import os
import subprocess
import sys
import tempfile
import time

import z3

from .prelude import prelude

RLIMIT = int(os.environ.get("PYVC_RLIMIT", "40000000"))
RLIMIT_QUICK = int(os.environ.get("PYVC_RLIMIT_QUICK", "400000"))
QUICK_TIMEOUT_MS = int(os.environ.get("PYVC_QUICK_TIMEOUT_MS", "8000"))   # stage 1 only; later stages decide
CVC5 = "/usr/bin/cvc5"
CVC5_TLIMIT_S = int(os.environ.get("PYVC_CVC5_TLIMIT", "15"))


def make_solver(rlimit=RLIMIT, mbqi=False, seed=0, timeout_ms=120000):
    s = z3.SimpleSolver()
    s.set("smt.mbqi", mbqi)
    s.set("smt.auto_config", False)
    s.set("smt.ematching", True)
    s.set("rlimit", rlimit)
    s.set("timeout", timeout_ms)
    s.set("smt.qi.eager_threshold", 100.0)
    if seed:
        s.set("smt.random_seed", seed)
    for kv in os.environ.get("PYVC_Z3_OPTS", "").split(","):
        if "=" in kv:
            k, v = kv.split("=")
            s.set(k, int(v) if v.lstrip("-").isdigit() else (v == "true" if v in ("true", "false") else v))
    return s


Z3CLI = os.environ.get("PYVC_Z3CLI") or "z3-new"
HARD_CAP_S = int(os.environ.get("PYVC_HARD_CAP_S", "900"))   # safety net only; verdicts are bounded by resource limits
STAGE0_TLIMIT_MS = int(os.environ.get("PYVC_STAGE0_TLIMIT_MS", "4000"))
STAGE1_TLIMIT_S = int(os.environ.get("PYVC_STAGE1_TLIMIT_S", "30"))
CLI_TLIMIT_S = int(os.environ.get("PYVC_CLI_TLIMIT_S", "240"))      # hard wall limit per subprocess stage
RLIMIT_CLI = int(os.environ.get("PYVC_RLIMIT_CLI", "60000000"))
RLIMIT_CVC5 = int(os.environ.get("PYVC_RLIMIT_CVC5", "600000"))


def run_z3_cli(smt2: str, rlimit: int = RLIMIT_CLI, seed: int = 0):
    """z3 as a subprocess on the exported text: default preprocessing + SMT core, E-matching only, bounded by a
    deterministic resource limit (so the verdict does not depend on machine load).  Returns (status, rlimit used)."""
    import re
    import shutil
    exe = shutil.which(Z3CLI) or shutil.which("z3")
    if exe is None:
        return "unknown", 0
    with tempfile.NamedTemporaryFile("w", suffix=".smt2", delete=False, dir=os.environ.get("PYVC_TMP")) as fh:
        fh.write(smt2 if "(check-sat)" in smt2 else smt2 + "\n(check-sat)\n")
        path = fh.name
    try:
        out = subprocess.run([exe, "-st", f"-T:{CLI_TLIMIT_S}", f"rlimit={rlimit}", "smt.mbqi=false", "smt.auto_config=false",
                              "smt.qi.eager_threshold=100", f"smt.random_seed={seed}", path],
                             capture_output=True, text=True, timeout=CLI_TLIMIT_S + 30)
        first = out.stdout.strip().splitlines()[0] if out.stdout.strip() else "unknown"
        m = re.search(r":rlimit-count\s+(\d+)", out.stdout)
        return (first if first in ("sat", "unsat") else "unknown"), int(m.group(1)) if m else 0
    except Exception:
        return "unknown", 0
    finally:
        try:
            os.unlink(path)
        except OSError:
            pass


class Result:
    __slots__ = ("status", "backend", "time", "model", "reason", "smt2")

    def __init__(self, status, backend, t, model=None, reason="", smt2=None):
        self.status, self.backend, self.time, self.model, self.reason, self.smt2 = status, backend, t, model, reason, smt2


def _load(s, hyps, goal, extra):
    P = prelude()
    for a in P.axioms:
        s.add(a)
    for f in extra:
        s.add(f)
    for h in hyps:
        s.add(h)
    s.add(z3.Not(goal))


def _stage1(hyps, goal, extra, rlimit, want_model, post):
    """in-process z3; returns a picklable dict.  `post(model)` turns the model into a JSON-able counterexample."""
    s = make_solver(rlimit, timeout_ms=STAGE1_TLIMIT_S * 1000)
    _load(s, hyps, goal, extra)
    r = s.check()
    out = {"r": str(r), "reason": "", "cex": None, "cex_error": None, "smt2": None}
    if r == z3.unsat:
        return out
    out["reason"] = s.reason_unknown() if r == z3.unknown else "sat"
    out["smt2"] = s.to_smt2()
    if want_model and post is not None:
        try:
            out["cex"] = post(s.model())
        except z3.Z3Exception:
            pass
        except Exception as err:   # extraction problems are reported, never fatal
            out["cex_error"] = repr(err)
    return out


def in_child(fn, hard_s: float):
    """Run fn() in a forked child with a hard wall-clock limit; None if it had to be killed.
    (z3's own timeout is not honoured in every phase, and interrupting from a thread crashed the interpreter.)"""
    import json
    import select
    import signal
    r, w = os.pipe()
    pid = os.fork()
    if pid == 0:
        code = 0
        try:
            os.close(r)
            data = json.dumps(fn()).encode()
            off = 0
            while off < len(data):
                off += os.write(w, data[off:off + 65536])
        except BaseException:
            code = 1
        finally:
            os._exit(code)
    os.close(w)
    chunks = []
    deadline = time.time() + hard_s
    killed = False
    while True:
        left = deadline - time.time()
        if left <= 0:
            killed = True
            break
        ready, _, _ = select.select([r], [], [], left)
        if not ready:
            killed = True
            break
        buf = os.read(r, 1 << 20)
        if not buf:
            break
        chunks.append(buf)
    if killed:
        try:
            os.kill(pid, signal.SIGKILL)
        except OSError:
            pass
    os.close(r)
    try:
        os.waitpid(pid, 0)
    except OSError:
        pass
    if killed or not chunks:
        return None
    try:
        return json.loads(b"".join(chunks).decode())
    except Exception:
        return None


def check(hyps, goal, extra=(), want_model=True, try_cvc5=True, rlimit=RLIMIT, post=None) -> Result:
    """stage 0  in-process z3 with a small budget (discharges the bulk of the VCs in milliseconds)
       stage 1  the same solver with the full resource budget in a forked child under a hard wall limit; if a
                counterexample is wanted, `post(model)` runs in the child and its JSON-able result is kept
       stage 2  race of external solvers on the exported text (z3 command line with and without preprocessing,
                several seeds; cvc5), hard wall limit; the first `unsat` wins"""
    t0 = time.time()
    s = make_solver(min(RLIMIT_QUICK, rlimit), timeout_ms=STAGE0_TLIMIT_MS)
    _load(s, hyps, goal, extra)
    r = s.check()
    if r == z3.unsat:
        return Result("unsat", "z3", time.time() - t0)
    reason = s.reason_unknown() if r == z3.unknown else "sat"
    first_status = "sat" if r == z3.sat else "unknown"
    smt2 = s.to_smt2()
    cexd = None
    if r != z3.sat:
        o = in_child(lambda: _stage1(hyps, goal, extra, rlimit, want_model and post is not None, post), STAGE1_TLIMIT_S + 5)
        if o is not None:
            if o["r"] == "unsat":
                return Result("unsat", "z3", time.time() - t0)
            if o.get("cex") is not None or o.get("cex_error"):
                cexd = {"cex": o.get("cex"), "cex_error": o.get("cex_error")}
            reason = o.get("reason") or reason
        winner = race(smt2, try_cvc5)
        if winner:
            return Result("unsat", winner, time.time() - t0)
    model = None
    if want_model:
        if post is None:
            try:
                model = s.model()
            except z3.Z3Exception:
                model = None
        else:
            if cexd is None:
                try:
                    cexd = {"cex": post(s.model()), "cex_error": None}
                except z3.Z3Exception:
                    cexd = None
                except Exception as err:
                    cexd = {"cex": None, "cex_error": repr(err)}
            model = cexd
    return Result(first_status, "z3", time.time() - t0, model, reason)


def permute_asserts(text: str, seed):
    """Same problem with the top-level (assert ...) commands reversed (seed None) or shuffled (seed int)."""
    import random
    lines = text.split("\n")
    # group the text into top-level commands by parenthesis depth
    cmds, cur, depth = [], [], 0
    for ln in lines:
        cur.append(ln)
        depth += ln.count("(") - ln.count(")")
        if depth <= 0 and any(x.strip() for x in cur):
            cmds.append("\n".join(cur))
            cur, depth = [], 0
    if cur:
        cmds.append("\n".join(cur))
    idx = [i for i, c in enumerate(cmds) if c.lstrip().startswith("(assert")]
    if len(idx) < 3:
        return None
    asserts = [cmds[i] for i in idx]
    if seed is None:
        asserts.reverse()
    else:
        random.Random(seed).shuffle(asserts)
    for i, a in zip(idx, asserts):
        cmds[i] = a
    return "\n".join(cmds)


def race(smt2: str, try_cvc5=True, limit_s=None):
    import shutil
    limit_s = limit_s or CLI_TLIMIT_S
    exe = shutil.which(Z3CLI) or shutil.which("z3")
    paths = []

    def tmp(text):
        with tempfile.NamedTemporaryFile("w", suffix=".smt2", delete=False, dir=os.environ.get("PYVC_TMP")) as fh:
            fh.write(text)
            paths.append(fh.name)
            return fh.name
    ztext = smt2 if "(check-sat)" in smt2 else smt2 + "\n(check-sat)\n"
    procs = {}
    try:
        if exe:
            zp = tmp(ztext)
            for seed in (0, 1, 2):
                procs[f"z3-cli(seed={seed})"] = subprocess.Popen(
                    [exe, f"-T:{limit_s}", f"rlimit={RLIMIT_CLI}", "smt.mbqi=false", "smt.auto_config=false",
                     "smt.qi.eager_threshold=100", f"smt.random_seed={seed}", zp],
                    stdout=subprocess.PIPE, stderr=subprocess.DEVNULL, text=True)
        if exe:
            # E-matching is sensitive to the order of the assertions: two more runs on permuted texts
            for label, text in (("z3-cli(reversed)", permute_asserts(ztext, None)), ("z3-cli(shuffled)", permute_asserts(ztext, 7))):
                if text is None:
                    continue
                zp3 = tmp(text)
                procs[label] = subprocess.Popen(
                    [exe, f"-T:{limit_s}", f"rlimit={RLIMIT_CLI}", "smt.mbqi=false", "smt.auto_config=false",
                     "smt.qi.eager_threshold=100", zp3], stdout=subprocess.PIPE, stderr=subprocess.DEVNULL, text=True)
        if exe:
            # the SMT core without the default preprocessing (what the in-process solver does), larger budget
            zp2 = tmp(ztext.replace("(check-sat)", "(check-sat-using smt)"))
            procs["z3-cli(smt)"] = subprocess.Popen(
                [exe, f"-T:{limit_s}", f"rlimit={RLIMIT_CLI}", "smt.mbqi=false", "smt.auto_config=false",
                 "smt.qi.eager_threshold=100", zp2], stdout=subprocess.PIPE, stderr=subprocess.DEVNULL, text=True)
        if try_cvc5 and os.path.exists(CVC5):
            cp = tmp("(set-logic ALL)\n" + smt2)
            procs["cvc5"] = subprocess.Popen([CVC5, "--tlimit=%d" % (limit_s * 1000), cp],
                                             stdout=subprocess.PIPE, stderr=subprocess.DEVNULL, text=True)
        deadline = time.time() + limit_s + 10
        pending = dict(procs)
        while pending and time.time() < deadline:
            for name, pr in list(pending.items()):
                if pr.poll() is not None:
                    out = pr.stdout.read() if pr.stdout else ""
                    del pending[name]
                    first = out.strip().splitlines()[0] if out.strip() else ""
                    if first == "unsat":
                        return name
                    if first.startswith("(error"):
                        # a front end rejecting the exported text is a defect of the export, not a verdict: say so
                        sys.stderr.write(f"pyvc: external solver {name} rejected the query: {first[:160]}\n")
            time.sleep(0.05)
        return None
    finally:
        for pr in procs.values():
            if pr.poll() is None:
                try:
                    pr.kill()
                except OSError:
                    pass
            try:
                pr.wait(timeout=5)
            except Exception:
                pass
        for pth in paths:
            try:
                os.unlink(pth)
            except OSError:
                pass


def _export(hyps, goal, extra) -> str:
    s = make_solver()
    _load(s, hyps, goal, extra)
    return s.to_smt2()


def run_cvc5(smt2: str, rlimit=RLIMIT_CVC5) -> str:
    if not os.path.exists(CVC5):
        return "unknown"
    text = "(set-logic ALL)\n" + smt2
    with tempfile.NamedTemporaryFile("w", suffix=".smt2", delete=False, dir=os.environ.get("PYVC_TMP")) as fh:
        fh.write(text)
        path = fh.name
    try:
        out = subprocess.run([CVC5, "--rlimit=%d" % rlimit, "--tlimit=%d" % (CLI_TLIMIT_S * 500), path],
                             capture_output=True, text=True, timeout=CLI_TLIMIT_S // 2 + 10)
        first = out.stdout.strip().splitlines()[0] if out.stdout.strip() else "unknown"
        return first if first in ("sat", "unsat") else "unknown"
    except Exception:
        return "unknown"
    finally:
        try:
            os.unlink(path)
        except OSError:
            pass
