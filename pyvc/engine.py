"""Exec: the verification-condition generator.  One instance per unit (contract, harness,
lemma); produces a list of Obligation objects, never a verdict."""
from __future__ import annotations

import ast
import textwrap

import z3

from .prelude import prelude, Int, Bool
from .state import State, Outcome, Obligation
from .ptypes import *  # noqa
from .values import (V, TPy, Unsupported, box, unbox, coerce, fresh, ite, join_types, none_of, some_of,
                     opt_is_none, opt_get, sort_of, theory_of, seq_theory, is_simple, fresh_name)
from .expr import ExprMixin, DeadPath, I
from .heap import HeapMixin
from .stmt import StmtMixin, StaleContract
from .calls import CallMixin
from .builtins_ import BuiltinMixin
from .frontend import Repo, strip_docstring, ModuleInfo
from .contracts import Registry, Contract


def _has_quantifier(f) -> bool:
    seen = set()
    stack = [f]
    while stack:
        t = stack.pop()
        if t.get_id() in seen:
            continue
        seen.add(t.get_id())
        if z3.is_quantifier(t):
            return True
        stack.extend(t.children())
    return False


class Exec(ExprMixin, HeapMixin, StmtMixin, CallMixin, BuiltinMixin):
    def __init__(self, repo: Repo, reg: Registry, unit: str):
        self.repo = repo
        self.reg = reg
        self.unit = unit
        self.obligations: list[Obligation] = []
        self.sinks: list[list[Outcome]] = [[]]
        self.ctx: list = [(None, None, None)]
        self.heap0: dict = {}
        self.alloc0 = None
        self.const_cache: dict = {}
        self.global_facts: list = []
        self.extra_globals: dict = {}
        self.inline_stack: list = []
        self.contract_stack: list = []
        self.loop_ordinals: dict = {}
        self.sticky_types: dict = {}
        self.written_fields: set = set()
        self.used_contracts: set = set()
        self.assumptions: list[str] = []
        self.opaque_callees: set = set()
        self.extern_handlers: dict = {}
        self.unit_qual_inlining = None
        self.merge_enabled = True
        self.spec_mode = 0
        self.spec_old_state = None
        self.cur_line = 0
        self._type_cache: dict = {}
        self._exc_table = None
        self._class_ids: dict = {}
        self._effects_in_progress: set = set()
        self.bytes_items: dict = {}
        self.entry_state: State | None = None
        self.param_values: dict = {}
        self.bound_vars: list = []
        self._spec_facts = None
        from .contracts import split_unit
        self.unit_base, self.instance = split_unit(unit)
        for k, v in self.instance.items():
            if isinstance(v, int):
                self.extra_globals[k] = V(INT, I(v))

    # ------------------------------------------------------------------ utilities
    def src(self, node) -> str:
        try:
            return " ".join(ast.unparse(node).split())
        except Exception:
            return f"<{type(node).__name__}>"

    def note_assumption(self, text: str):
        if text not in self.assumptions:
            self.assumptions.append(text)

    def cur_contract(self):
        return self.contract_stack[-1] if self.contract_stack else None

    def feasible(self, st: State) -> bool:
        return True

    def const_of(self, term, st: State):
        """If the quantifier-free part of the path condition forces `term` to one integer value,
        return that literal (used so that `x % self._capacity` is linear when an instance pins the
        field).  Only active for units verified per instance; otherwise returns term unchanged."""
        t = z3.simplify(term)
        if z3.is_int_value(t) or not self.instance:
            return t
        facts = [f for f in list(st.pc) + list(st.guards) if not _has_quantifier(f)]
        s = z3.SimpleSolver()
        s.set("timeout", 2000)
        s.add(*facts)
        if s.check() != z3.sat:
            return t
        val = s.model().eval(t, model_completion=True)
        if not z3.is_int_value(val):
            return t
        s.add(t != val)
        if s.check() == z3.unsat:
            return val
        return t

    def bind(self, st, v, base="t"):
        if self.spec_mode:
            return v
        return ExprMixin.bind(self, st, v, base)

    # ------------------------------------------------------------------ raising and obligations
    def may_raise(self, st: State, cond, exc: str, node, msg=""):
        """Split off the exceptional continuation; the current state continues with not cond."""
        if self.spec_mode:
            return
        cond = z3.simplify(cond) if not isinstance(cond, bool) else z3.BoolVal(cond)
        if z3.is_false(cond):
            return
        rs = st.copy()
        self.may_raise_state(st, rs, cond, exc, node, msg)

    def may_raise_state(self, st: State, rs: State, cond, exc: str, node, msg=""):
        g = list(st.guards)
        rs.guards = []
        for x in g:
            rs.pc.append(x)
        rs.pc.append(cond)
        rs.trace.append(f"raise {exc}")
        site = f"{exc} @ {self.src(node)}" + (f" [{msg}]" if msg else "")
        self.sinks[-1].append(Outcome("raise", rs, exc, site=site, line=getattr(node, "lineno", self.cur_line)))
        st.assume(z3.Not(cond))

    def oblige(self, st: State, goal, clause: str, site: str, node=None, note=""):
        goal = z3.simplify(goal) if z3.is_bool(goal) else goal
        if z3.is_true(goal):
            self.trivial += 1
            return
        ob = Obligation(self.unit, clause, site, list(st.pc) + list(st.guards), goal,
                        line=getattr(node, "lineno", self.cur_line), state=st.copy(), note=note)
        self.obligations.append(ob)
        st.assume(goal)

    trivial = 0

    def oblige_spec(self, st: State, text: str, clause: str, site: str, node=None, old=None):
        goal = self.ev_spec(text, st, old=old)
        self.oblige(st, goal, clause, site, node, note=text)

    # ------------------------------------------------------------------ spec expressions
    def ev_spec(self, text: str, st: State, old: State | None = None):
        v = self.ev_spec_val(text, st, old)
        return self.truth(v, st)

    def ev_spec_val(self, text: str, st: State, old: State | None = None) -> V:
        tree = ast.parse(textwrap.dedent(text).strip(), mode="eval").body
        tmp = st.copy()
        tmp.guards = []
        self.spec_mode += 1
        saved_old = self.spec_old_state
        if old is not None:
            self.spec_old_state = old
        saved_facts = self._spec_facts
        self._spec_facts = []
        try:
            return self.ev(tree, tmp)
        finally:
            self.spec_mode -= 1
            self.spec_old_state = saved_old
            for f in self._spec_facts:
                st.pc.append(f)
            self._spec_facts = saved_facts

    def special_form(self, e: ast.Call, st):
        if self.spec_mode and isinstance(e.func, ast.Name):
            name = e.func.id
            h = getattr(self, "spec_" + name, None)
            if h is not None and name not in st.locals:
                return h(e, st)
            if name in self.reg.specfns:
                return self.spec_macro(self.reg.specfns[name], e, st)
        return CallMixin.special_form(self, e, st)

    def spec_macro(self, sf, e, st):
        args = [self.ev(a, st) for a in e.args]
        if len(args) != len(sf.params):
            raise Unsupported(f"spec function {sf.name} arity")
        saved = st.frames[-1]
        frame = dict(saved)
        frame.update(zip(sf.params, args))
        st.frames[-1] = frame
        try:
            return self.ev(ast.parse(textwrap.dedent(sf.body).strip(), mode="eval").body, st)
        finally:
            st.frames[-1] = saved

    def spec_old(self, e, st):
        if self.spec_old_state is None:
            raise Unsupported("old() outside a postcondition")
        o = self.spec_old_state.copy()
        o.frames = [dict(self.spec_old_state.locals)]
        # bound variables of enclosing quantifiers stay visible
        for k, v in st.locals.items():
            if k not in o.locals:
                o.locals[k] = v
        n0 = len(o.pc)
        r = self.ev(e.args[0], o)
        # facts produced while evaluating in the pre-state (definitions of lists built by old(xs[a:b]), allocatedness of
        # what was read) speak about pre-state terms only and stay true: keep them for the current clause
        for f in o.pc[n0:]:
            self._spec_facts.append(f)
        rt = r.t.inner if isinstance(r.t, TOpt) else r.t
        if isinstance(rt, (TList, TDict, TSet)):
            # a mutable container named by old(...) denotes its *pre-state content*: later reads through this
            # value use the pre-state heap (the run-time reading evaluates old() on a deep copy)
            r = V(r.t, r.z)
            r._snap = o
        return r

    def spec_implies(self, e, st):
        a = self.truth(self.ev(e.args[0], st), st)
        b = self.truth(self.ev(e.args[1], st), st)
        return V(BOOL, z3.Implies(a, b))

    def spec_iff(self, e, st):
        a = self.truth(self.ev(e.args[0], st), st)
        b = self.truth(self.ev(e.args[1], st), st)
        return V(BOOL, a == b)

    def _quant(self, e, st, universal: bool):
        lam = e.args[0]
        if not isinstance(lam, ast.Lambda):
            raise Unsupported("forall/exists needs a lambda")
        names = [a.arg for a in lam.args.args]
        bounds = e.args[1:]
        vars_ = [z3.Int(fresh_name(n)) for n in names]
        saved = st.frames[-1]
        frame = dict(saved)
        for n, v in zip(names, vars_):
            frame[n] = V(INT, v)
        st.frames[-1] = frame
        self.bound_vars.extend(vars_)
        try:
            rng = []
            if len(bounds) == 2 * len(names):
                for i, v in enumerate(vars_):
                    lo = self.as_int(self.ev(bounds[2 * i], st), st, e)
                    hi = self.as_int(self.ev(bounds[2 * i + 1], st), st, e)
                    rng.append(z3.And(lo <= v, v < hi))
            elif bounds:
                raise Unsupported("forall bounds: give lo, hi per variable")
            body = self.truth(self.ev(lam.body, st), st)
        finally:
            st.frames[-1] = saved
            del self.bound_vars[len(self.bound_vars) - len(vars_):]
        guard = z3.And(*rng) if rng else z3.BoolVal(True)
        if universal:
            pats = self.infer_patterns(body, vars_)
            q = z3.ForAll(vars_, z3.Implies(guard, body), patterns=pats) if pats else z3.ForAll(vars_, z3.Implies(guard, body))
        else:
            # exists k. P(k)  is encoded as  not forall k {Wit(k)}. not (Wit(k) and P(k)):  assumed, it skolemises to a
            # witness sk with Wit(sk); as a goal, E-matching instantiates it with every term t for which Wit(t) is
            # known (from a callee's existential or an explicit wit(t) conjunct).  Wit is an uninterpreted predicate.
            W = prelude().func("Wit", Int, Bool)
            wits = [W(v) for v in vars_]
            pat = wits[0] if len(wits) == 1 else z3.MultiPattern(*wits)
            q = z3.Not(z3.ForAll(vars_, z3.Not(z3.And(guard, body, *wits)), patterns=[pat]))
        return V(BOOL, q)

    def spec_forall(self, e, st):
        return self._quant(e, st, True)

    def spec_exists(self, e, st):
        return self._quant(e, st, False)

    def infer_patterns(self, body, vars_):
        """Uninterpreted applications that mention every bound variable as a direct argument
        (or in a sub-application); falls back to z3's own inference when none exists."""
        ids = {v.get_id() for v in vars_}
        found = []
        seen = set()

        def has_var(t):
            if t.get_id() in ids:
                return True
            return any(has_var(c) for c in t.children())

        def direct(t):
            # arguments containing a bound var are either the var itself or uninterpreted terms
            for c in t.children():
                if c.get_id() in ids:
                    continue
                if has_var(c):
                    if z3.is_app(c) and c.decl().kind() == z3.Z3_OP_UNINTERPRETED and direct(c):
                        continue
                    if z3.is_app(c) and c.decl().kind() in (z3.Z3_OP_SELECT,) and direct(c):
                        continue
                    return False
            return True

        def walk(t):
            if t.get_id() in seen:
                return
            seen.add(t.get_id())
            if z3.is_quantifier(t):
                return
            if z3.is_app(t):
                k = t.decl().kind()
                if k in (z3.Z3_OP_UNINTERPRETED, z3.Z3_OP_SELECT) and t.num_args() > 0 and has_var(t) and direct(t):
                    found.append(t)
                    return
                for c in t.children():
                    walk(c)
        walk(body)
        if not found:
            return None
        # one pattern per candidate that covers all variables; else a multipattern of several

        def vars_in(t, acc):
            if t.get_id() in ids:
                acc.add(t.get_id())
            for c in t.children():
                vars_in(c, acc)
            return acc
        full = [t for t in found if vars_in(t, set()) == ids]
        if full:
            return full[:4]
        cover = set()
        multi = []
        for t in found:
            vs = vars_in(t, set())
            if not vs <= cover:
                multi.append(t)
                cover |= vs
        if cover == ids and len(multi) > 1:
            return [z3.MultiPattern(*multi)]
        return None

    # byte readers usable in contracts
    def _reader(self, e, st, size, signed=False, little=False):
        data = self.ev(e.args[0], st)
        off = self.as_int(self.ev(e.args[1], st), st, e) if len(e.args) > 1 else I(0)
        if isinstance(data.t, TOpt):
            data = opt_get(data)  # readers are only meaningful under a 'x is not None' guard of the contract
        if isinstance(data.t, TList):
            raise Unsupported("reader on list")
        B = prelude().Bytes
        dz = data.z
        if z3.is_app(dz) and dz.decl().eq(B.Slice):
            # reader on a slice b[lo:hi] (typically a callee's parameter bound to a slice of the caller's buffer): read
            # through to b itself when the read lies inside the slice -- same value by the Slice axioms, but the index
            # terms are then offsets into b, which is what the caller's invariants talk about
            src, lo, hi = dz.arg(0), dz.arg(1), dz.arg(2)
            inside = z3.And(0 <= lo, lo <= hi, hi <= B.Len(src), 0 <= off, off + size <= hi - lo)
            return V(INT, z3.If(inside, self.read_int(src, z3.simplify(lo + off), size, signed, little),
                                self.read_int(dz, off, size, signed, little)))
        return V(INT, self.read_int(data.z, off, size, signed, little))

    def spec_u8(self, e, st): return self._reader(e, st, 1)
    def spec_u16(self, e, st): return self._reader(e, st, 2)
    def spec_u24(self, e, st): return self._reader(e, st, 3)
    def spec_u32(self, e, st): return self._reader(e, st, 4)
    def spec_u64(self, e, st): return self._reader(e, st, 8)
    def spec_i24(self, e, st): return self._reader(e, st, 3, signed=True)
    def spec_i32(self, e, st): return self._reader(e, st, 4, signed=True)
    def spec_u32le(self, e, st): return self._reader(e, st, 4, little=True)

    def spec_seq(self, e, st):
        """seq(x): immutable content of a list (or the value itself for bytes/seq)."""
        v = self.ev(e.args[0], st)
        if isinstance(v.t, TOpt):
            v = opt_get(v)
        if isinstance(v.t, TList):
            return V(TSeq(v.t.elt), self.list_content(st, v))
        return v

    def spec_fresh(self, e, st):
        """fresh(x): x was not allocated at entry."""
        v = self.ev(e.args[0], st)
        al = self.alloc0 if self.alloc0 is not None else self.alloc_map(st)
        return V(BOOL, z3.Not(z3.Select(al, v.z)))

    def spec_wit(self, e, st):
        """wit(t): always true; makes t available as an instantiation candidate for exists()."""
        W = prelude().func("Wit", Int, Bool)
        t = self.as_int(self.ev(e.args[0], st), st, e)
        return V(BOOL, W(t))

    def spec_joined(self, e, st):
        """joined(lambda k: bytes_expr, n): concatenation of bytes_expr for k = 0 .. n-1 (b''.join).
        Encoded as Join(F) for a fresh sequence F (a function of the enclosing bound variables) defined
        pointwise; the definition is a conservative extension and is added to the unit's global facts."""
        lam = e.args[0]
        if not isinstance(lam, ast.Lambda) or len(lam.args.args) != 1 or len(e.args) != 2:
            raise Unsupported("joined(lambda k: e, n)")
        n = self.as_int(self.ev(e.args[1], st), st, e)
        th = seq_theory(BYTES)
        outer = list(self.bound_vars)
        name = fresh_name("joinsrc")
        if outer:
            F = z3.Function(name, *([Int] * len(outer) + [th.S]))
            mk = F(*outer)
        else:
            mk = z3.Const(name, th.S)
        k = z3.Int(fresh_name("k"))
        saved = st.frames[-1]
        frame = dict(saved)
        frame[lam.args.args[0].arg] = V(INT, k)
        st.frames[-1] = frame
        self.bound_vars.append(k)
        try:
            body = self.ev(lam.body, st)
        finally:
            st.frames[-1] = saved
            self.bound_vars.pop()
        if isinstance(body.t, TOpt):
            body = opt_get(body)
        if not isinstance(body.t, TBytes):
            raise Unsupported(f"joined over {body.t}")
        ax_len = th.Len(mk) == z3.If(n >= 0, n, 0)
        ax_idx = z3.Implies(z3.And(0 <= k, k < n), th.Idx(mk, k) == body.z)
        if outer:
            self.global_facts.append(z3.ForAll(outer, ax_len, patterns=[mk]))
        else:
            self.global_facts.append(ax_len)
        self.global_facts.append(z3.ForAll(outer + [k], ax_idx, patterns=[th.Idx(mk, k)]))
        return V(BYTES, self.joindata(th)(mk))

    def spec_all_in(self, e, st):
        """all_in(container, lambda x: P): every element of a set / key of a dict / item of a list satisfies P
        (an unbounded quantifier in the proof, an exact loop over the container at run time).  Directly nested
        all_in's are flattened into one quantifier whose trigger is the innermost membership term, so that a
        membership fact about an inner container instantiates it without the outer one having fired first."""
        vars_, members, saved_frames = [], [], []

        def descend(call):
            cont = self.ev(call.args[0], st)
            lam = call.args[1]
            if isinstance(cont.t, TOpt):
                cont = opt_get(cont)
            name = lam.args.args[0].arg
            saved = st.frames[-1]
            saved_frames.append(saved)
            frame = dict(saved)
            if isinstance(cont.t, (TSet, TDict)):
                et = cont.t.elt if isinstance(cont.t, TSet) else cont.t.key
                x = z3.Const(fresh_name(name), sort_of(et))
                xv = unbox(x, et)
                member = self.set_has(st, cont, xv) if isinstance(cont.t, TSet) else self.dict_has(st, cont, xv)
                frame[name] = xv
                pat = member
            elif isinstance(cont.t, (TList, TSeq, TBytes)):
                th = theory_of(cont.t)
                seq = self.list_content(st, cont) if isinstance(cont.t, TList) else cont.z
                elt = INT if isinstance(cont.t, TBytes) else cont.t.elt
                x = z3.Int(fresh_name("k"))
                member = z3.And(0 <= x, x < th.Len(seq))
                frame[name] = unbox(th.Idx(seq, x), elt)
                pat = th.Idx(seq, x)
            else:
                raise Unsupported(f"all_in over {cont.t}")
            st.frames[-1] = frame
            self.bound_vars.append(x)
            vars_.append(x)
            members.append((member, pat))
            inner = lam.body
            if (isinstance(inner, ast.Call) and isinstance(inner.func, ast.Name) and inner.func.id == "all_in"
                    and "all_in" not in st.locals):
                return descend(inner)
            return self.truth(self.ev(inner, st), st)

        try:
            body = descend(e)
        finally:
            for saved in reversed(saved_frames):
                st.frames[-1] = saved
            del self.bound_vars[len(self.bound_vars) - len(vars_):]
        ids = {v.get_id() for v in vars_}

        def mentions_all(t):
            seen, found, stack = set(), set(), [t]
            while stack:
                u = stack.pop()
                if u.get_id() in seen:
                    continue
                seen.add(u.get_id())
                if u.get_id() in ids:
                    found.add(u.get_id())
                stack.extend(u.children())
            return found == ids
        last_pat = members[-1][1]
        pats = [last_pat] if mentions_all(last_pat) else [z3.MultiPattern(*[p for _m, p in members])]
        return V(BOOL, z3.ForAll(vars_, z3.Implies(z3.And(*[m for m, _p in members]), body), patterns=pats))

    def spec_yielded(self, e, st):
        """yielded(): the list of values a generator under contract has yielded so far (its final value is `result`)."""
        v = st.locals.get("$yield")
        if v is None:
            raise Unsupported("yielded() outside a generator under contract")
        return v

    def spec_loop_seq(self, e, st):
        """loop_seq(k): the (snapshot) sequence iterated by for-loop number k of the function under contract."""
        k = e.args[0].value
        v = st.locals.get("$iter%d" % k)
        if v is None:
            raise Unsupported(f"loop_seq({k}): no iterated sequence in scope")
        return v

    def spec_pow2(self, e, st):
        return V(INT, prelude().pow2(self.as_int(self.ev(e.args[0], st), st, e)))

    def spec_ite(self, e, st):
        c = self.truth(self.ev(e.args[0], st), st)
        return ite(c, self.ev(e.args[1], st), self.ev(e.args[2], st))

    def spec_is_none(self, e, st):
        v = self.ev(e.args[0], st)
        return V(BOOL, self.identical(v, V(NONE, None), st, e))

    def spec_utf8(self, e, st):
        v = self.ev(e.args[0], st)
        if isinstance(v.t, TOpt):      # utf8(opt) under a guard `x is not None` (value of the some-case)
            v = opt_get(v)
        return V(BYTES, prelude().utf8(v.z))

    def spec_valid_utf8(self, e, st):
        v = self.ev(e.args[0], st)
        return V(BOOL, prelude().valid_utf8(v.z))

    def spec_uf_str(self, e, st):
        """uf_str('tag', a, b, ...): an uninterpreted string-valued function of its arguments (what an external library
        computes, e.g. a certificate digest); the run-time reading is registered by the sidecar with runtime_fn(tag, f)."""
        tag = e.args[0].value
        args = [self.ev(a, st) for a in e.args[1:]]
        zs = [box(a) for a in args]
        f = prelude().func("uf_str!" + tag, *([z.sort() for z in zs] + [prelude().Str]))
        self.note_assumption(f"uf_str('{tag}', ...) is an uninterpreted function (external computation)")
        return V(STR, f(*zs))

    def spec_uf_any(self, e, st):
        """uf_any('method', obj): what the read-only query obj.method(...) of an external object returns (pure_opaque)."""
        tag = e.args[0].value
        recv = self.ev(e.args[1], st)
        f = prelude().func("uf_any!" + tag, prelude().Ref, prelude().Ref)
        return V(ANY, f(recv.z))

    def spec_now(self, e, st):
        """now(old(e)): the reference computed in the pre-state, read in the current state (identity for the prover,
        where old(e) of object type already is the reference)."""
        v = self.ev(e.args[0], st)
        r = V(v.t, v.z)
        return r

    def spec_same(self, e, st):
        """same(a, b): reference identity / primitive equality without __eq__."""
        a, b = self.ev(e.args[0], st), self.ev(e.args[1], st)
        if is_ref_type(a.t) and is_ref_type(b.t):
            return V(BOOL, a.z == b.z)     # reference identity, whatever the static types
        t = join_types(a.t, b.t)
        return V(BOOL, box(coerce(a, t)) == box(coerce(b, t)))

    # ------------------------------------------------------------------ emit discipline
    def emit_fields(self, cls: str):
        """Declared, non-ghost fields of immutable type of the unit's class: what a listener can observe directly."""
        out = []
        ci = self.repo.classes.get(cls)
        spec = self.reg.classes.get(ci.qual) if ci is not None else None
        if spec is None:
            return out
        for f, ttxt in spec.fields.items():
            t = self.parse_type(ttxt)
            if isinstance(t, (TInt, TBool, TStr, TReal, TNone, TEnum)) or (isinstance(t, TOpt) and isinstance(t.inner, (TInt, TBool, TStr, TReal, TEnum))):
                out.append((f, t))
        return out

    def emit_discipline(self, recv, st: State, node):
        """self.emit(...) inside the unit under verification whose contract carries at_emit clauses: the clauses are
        obligations here (old() = entry state), and the values of self's declared scalar fields are recorded so that
        the exit can be checked against them (nothing is written after listeners ran)."""
        if len(self.contract_stack) != 1:
            return
        c = self.contract_stack[-1]
        if not c.at_emit or self.param_values.get("self") is None or not isinstance(recv.t, TObj):
            return
        selfv = self.param_values["self"]
        if not z3.eq(recv.z, selfv.z):
            return
        for k, r in enumerate(c.at_emit):
            self.oblige_spec(st, r, f"at_emit[{k}]", f"emit @ line {getattr(node, 'lineno', self.cur_line)}", node, old=self.entry_state)
        st.locals["$emitted"] = V(BOOL, z3.BoolVal(True))
        for f, t in self.emit_fields(recv.t.cls):
            st.locals[f"$at_emit_{f}"] = self.ev_spec_val(f"self.{f}", st)

    def check_after_emit(self, c, fin: State):
        if not c.at_emit or "$emitted" not in fin.locals:
            return
        flag = fin.locals["$emitted"].z
        selfv = self.param_values["self"]
        for f, t in self.emit_fields(selfv.t.cls):
            snap = fin.locals.get(f"$at_emit_{f}")
            if snap is None:
                continue
            cur = self.ev_spec_val(f"self.{f}", fin)
            t = join_types(cur.t, snap.t)
            goal = z3.Implies(flag, box(coerce(cur, t)) == box(coerce(snap, t)))
            self.oblige(fin, goal, f"after_emit[{f}]", "exit", None,
                        note=f"self.{f} at exit equals its value when emit() was called (listeners may re-enter)")

    # ------------------------------------------------------------------ ghost code
    def exec_ghost(self, src: str, st: State):
        tree = ast.parse(textwrap.dedent(src))
        self.spec_mode += 1
        try:
            outs = self.exec_block(tree.body, st)
        finally:
            self.spec_mode -= 1
        if len(outs) != 1 or outs[0].kind != "next":
            raise Unsupported("ghost code must be straight-line")
        if outs[0].st is not st:
            st.become(outs[0].st)

    def ghost_hook(self, label: str, st: State, node):
        c = self.cur_contract()
        if c is None:
            return
        for src in c.ghost.get(label, []):
            self.exec_ghost(src, st)

    # ------------------------------------------------------------------ units
    def param_types(self, c: Contract, ci, fnode):
        a = fnode.args
        names = [x.arg for x in a.args] + [x.arg for x in a.kwonlyargs]
        decs = ci.decorators.get(fnode.name, []) if ci is not None else []
        out = {}
        for i, n in enumerate(names):
            if i == 0 and ci is not None and "staticmethod" not in decs:
                if "classmethod" in decs:
                    out[n] = ("class", ci)
                else:
                    out[n] = TObj(ci.name)
                continue
            if n in c.params:
                ttxt = c.params[n]
                for ik, iv in self.instance.items():
                    ttxt = ttxt.replace("$" + ik, str(iv))     # type parameters of the instance
                out[n] = self.parse_type(ttxt)
            else:
                ann = next((x.annotation for x in a.args + a.kwonlyargs if x.arg == n), None)
                t = self.type_from_annotation(ann)
                if t is None or isinstance(t, TOpaque):
                    raise Unsupported(f"parameter {n} of {c.qual} has no declared type")
                out[n] = t
        return out

    def verify_function(self, qual: str, c: Contract, mi, ci, fnode):
        """Generate the VCs of one function against its own contract."""
        self.unit_qual_inlining = qual
        self.merge_enabled = c.merge
        st = State()
        self.ctx.append((mi, ci, fnode))
        self.contract_stack.append(c)
        self.loop_ordinals = self.number_loops(fnode)
        self.check_loop_specs(c, fnode)
        self.opaque_callees |= set(c.opaque_calls)
        ptypes = self.param_types(c, ci, fnode)
        for n, t in ptypes.items():
            if isinstance(t, tuple):
                st.locals[n] = V(TPy("class"), ("class", t[1]))
            else:
                v = fresh(t, n)
                st.locals[n] = v
                if not isinstance(t, TTuple):
                    self.typing_facts(st, v)
                self.param_values[n] = v
        is_init = fnode.name == "__init__"
        for r in (c.requires if is_init else self.contract_requires(c, ci)):
            st.pc.append(self.ev_spec(r, st))
        entry = st.copy()
        self.entry_state = entry
        self.spec_old_state = entry
        is_gen = any(isinstance(n, (ast.Yield, ast.YieldFrom)) for n in ast.walk(fnode))
        if is_gen:
            rt = self.parse_type(c.returns) if c.returns else None
            if rt is None or not isinstance(rt, TList):
                raise Unsupported("generator contract needs returns='list[T]' (the yielded values)")
            st.locals["$yield"] = self.new_list_from_seq(st, rt.elt, theory_of(rt).Empty)
        if c.at_emit and "self" in self.param_values and isinstance(self.param_values["self"].t, TObj):
            st.locals["$emitted"] = V(BOOL, z3.BoolVal(False))
            for f, t in self.emit_fields(self.param_values["self"].t.cls):
                st.locals[f"$at_emit_{f}"] = self.ev_spec_val(f"self.{f}", st)
        self.sinks = [[]]
        outs = self.exec_block(strip_docstring(fnode.body), st)
        raised = self.sinks[0]
        rt = self.parse_type(c.returns) if c.returns else None
        for oc in outs:
            if oc.kind not in ("return", "next"):
                raise Unsupported(f"{oc.kind} escapes {qual}")
            val = oc.value if oc.kind == "return" else V(NONE, None)
            if is_gen:
                val = oc.st.locals["$yield"]
            fin = oc.st
            if rt is not None and not isinstance(rt, TNone):
                try:
                    val = self.coerce_to(fin, val, rt)
                except Unsupported as ex:
                    raise Unsupported(f"return value of {qual}: {ex}")
            fin.locals["result"] = val
            # parameters in postconditions denote their entry values (they may be re-assigned)
            for pn, pv in entry.locals.items():
                fin.locals[pn] = pv
            self.check_post(c, ci, fin, entry, oc)
        for oc in raised:
            self.check_raise(c, ci, oc, entry)
        self.ctx.pop()
        self.contract_stack.pop()

    def check_loop_specs(self, c, fnode):
        kinds = {}
        for nd in ast.walk(fnode):
            if id(nd) in self.loop_ordinals:
                kinds[self.loop_ordinals[id(nd)]] = "while" if isinstance(nd, ast.While) else "for"
        for k, spec in c.loops.items():
            if k not in kinds:
                raise StaleContract(f"{c.qual}: sidecar describes loop #{k}, the function has {len(kinds)} loops")
            if spec.kind and spec.kind != kinds[k]:
                raise StaleContract(f"{c.qual}: loop #{k} is a {kinds[k]} loop, sidecar says {spec.kind}")

    def check_post(self, c, ci, fin: State, entry: State, oc):
        site = f"return@{' '.join(t for t in fin.trace[-3:])}"
        for k, r in enumerate(self.contract_ensures(c, ci)):
            self.spec_old_state = entry
            goal = self.ev_spec(r, fin)
            self.oblige(fin, goal, f"ensures[{k}]", "exit", None, note=r)
        for exc, cond in c.raises.items():
            if cond is not None and not cond.startswith("?"):
                tmp = entry.copy()
                tmp.pc = list(fin.pc)
                goal = z3.Not(self.ev_spec(cond, tmp))
                self.oblige(fin, goal, f"raises[{exc}].iff", "normal exit implies not raise-condition", None, note=cond)
        self.check_frame(c, ci, fin, entry)
        self.check_after_emit(c, fin)

    def check_raise(self, c, ci, oc: Outcome, entry: State):
        exc = oc.value
        allowed = None
        for name in c.raises:
            if self.exc_subclass(exc, name):
                allowed = name
                break
        st = oc.st
        if allowed is None:
            ob = Obligation(self.unit, "raises", oc.site, list(st.pc), z3.BoolVal(False), line=oc.line, exc=exc,
                            state=st.copy(), note=f"only {sorted(c.raises) or 'no exception'} may escape")
            self.obligations.append(ob)
            return
        cond = c.raises[allowed]
        if cond is not None:
            tmp = entry.copy()
            tmp.pc = list(st.pc)
            goal = self.ev_spec(cond.lstrip("?"), tmp)
            self.oblige(st, goal, f"raises[{allowed}].when", oc.site, None, note=cond)
        for k, r in enumerate(c.raise_ensures.get(allowed, [])):
            self.spec_old_state = entry
            self.oblige(st, self.ev_spec(r, st), f"raise_ensures[{allowed}][{k}]", oc.site, None, note=r)

    def check_frame(self, c, ci, fin: State, entry: State):
        """modifies clause: every heap map written by the body outside the declared frame is
        unchanged on objects allocated at entry."""
        for key, goal in self.frame_goals(c, fin, entry):
            self.oblige(fin, goal, "modifies", f"frame of {key}", None, note=f"only {c.modifies} may change")

    def frame_goals(self, c, fin: State, entry: State):
        if c.modifies is None or c.modifies == ["*"]:
            return []
        out = []
        P = prelude()
        declared_maps = {}
        whole = set()
        tmp_entry = entry.copy()
        for mod in c.modifies:
            mod = mod.strip()
            if mod.startswith("*"):
                key = mod[1:]
                cname, _, attr = key.partition(".")
                ft = self.field_type(cname, attr) if attr else None
                whole.add(f"{ft[0]}.{attr}" if ft else key)
                continue
            tree = ast.parse(mod, mode="eval").body
            self.spec_mode += 1
            try:
                if isinstance(tree, ast.Call) and isinstance(tree.func, ast.Name) and tree.func.id == "content":
                    base = self.ev(tree.args[0], tmp_entry)
                    if isinstance(base.t, TOpt):
                        base = opt_get(base)
                    if isinstance(base.t, TList):
                        keys = [self.list_key(base.t.elt)]
                    elif isinstance(base.t, TDict):
                        name, _, _ = self.dict_keys(base.t)
                        keys = [name + ".dom", name + ".val"]
                    elif isinstance(base.t, TSet):
                        keys = [self.set_key(base.t)[0]]
                    else:
                        raise Unsupported(f"modifies {mod}")
                    for key in keys:
                        declared_maps.setdefault(key, []).append(base.z)
                elif isinstance(tree, ast.Attribute):
                    base = self.ev(tree.value, tmp_entry)
                    if isinstance(base.t, TOpt):
                        base = opt_get(base)
                    an = self.mangle(tree.attr)
                    if tree.attr.startswith("__") and not tree.attr.endswith("__") and \
                            self.field_type(base.t.cls, f"_{base.t.cls.lstrip('_')}{tree.attr}") is not None:
                        an = f"_{base.t.cls.lstrip('_')}{tree.attr}"      # private field of the receiver's own class
                    ft = self.field_type(base.t.cls, an)
                    if ft is None:
                        raise Unsupported(f"modifies {mod}: unknown field")
                    key = f"{ft[0]}.{an}"
                    declared_maps.setdefault(key, []).append(base.z)
                else:
                    raise Unsupported(f"modifies {mod}")
            finally:
                self.spec_mode -= 1
        al0 = self.alloc0
        for key, m in fin.heap.items():
            m0 = self.heap0.get(key)
            if m0 is None or m.eq(m0) or key in whole:
                continue
            r = z3.Const(fresh_name("r"), P.Ref)
            excl = [r != x for x in declared_maps.get(key, [])]
            hyp = z3.And(*( [z3.Select(al0, r)] if al0 is not None else [] ) + excl) if (excl or al0 is not None) else z3.BoolVal(True)
            goal = z3.ForAll([r], z3.Implies(hyp, z3.Select(m, r) == z3.Select(m0, r)),
                             patterns=[z3.Select(m, r)])
            out.append((key, goal))
        return out

    # ------------------------------------------------------------------ harnesses and lemmas
    def verify_harness(self, h):
        mi = self.repo.modules.get(h.module)
        if mi is None:
            raise Unsupported(f"harness module {h.module} not found")
        tree = ast.parse(textwrap.dedent(h.source))
        fnode = tree.body[0]
        self.verify_function("harness:" + h.name, h.contract, mi, None, fnode)

    def verify_lemma(self, lm):
        st = State()
        for n, ttxt in lm.vars.items():
            t = self.parse_type(ttxt)
            v = fresh(t, n)
            st.locals[n] = v
            if not isinstance(t, TTuple):
                self.typing_facts(st, v)
        for h in lm.hyps:
            st.pc.append(self.ev_spec(h, st))
        for k, g in enumerate(lm.goal):
            tmp = st.copy()
            self.oblige(tmp, self.ev_spec(g, tmp), f"goal[{k}]", "lemma", None, note=g)
