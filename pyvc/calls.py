"""Calls (mixin of Exec): name resolution, builtins, struct, container methods,
modular use of callee contracts, inlining of contract-less callees, comprehensions."""
from __future__ import annotations

import ast
import struct as _struct

import z3

from .prelude import prelude, Int, Bool
from .state import State, Outcome
from .ptypes import *  # noqa
from .values import (V, TPy, Unsupported, box, unbox, coerce, fresh, ite, join_types, none_of, some_of,
                     opt_is_none, opt_get, sort_of, theory_of, seq_theory, is_simple, fresh_name)
from .expr import DeadPath, I
from .frontend import strip_docstring

STRUCT_CODES = {"B": (1, False), "b": (1, True), "H": (2, False), "h": (2, True),
                "L": (4, False), "l": (4, True), "I": (4, False), "i": (4, True),
                "Q": (8, False), "q": (8, True)}

LOG_NAMES = {"debug", "info", "warning", "error", "exception", "critical", "log"}


def parse_struct_fmt(fmt: str):
    """-> (little_endian, [(code, size, signed)]) for the literal formats of the subset."""
    little = False
    if fmt and fmt[0] in "!><=@":
        little = fmt[0] == "<"
        if fmt[0] in "=@":
            raise Unsupported("native struct byte order")
        fmt = fmt[1:]
    else:
        raise Unsupported("native struct format")
    items = []
    count = ""
    for ch in fmt:
        if ch.isdigit():
            count += ch
            continue
        if ch == "x":
            n = int(count) if count else 1
            items.extend([("x", 1, False)] * n)
            count = ""
            continue
        if ch not in STRUCT_CODES:
            raise Unsupported(f"struct code {ch}")
        n = int(count) if count else 1
        size, signed = STRUCT_CODES[ch]
        items.extend([(ch, size, signed)] * n)
        count = ""
    return little, items


class CallMixin:
    # ---------------------------------------------------------------- name resolution
    def resolve_global(self, name: str, st, node) -> V:
        mi, ci = self.ctx[-1][0], self.ctx[-1][1]
        if name in self.extra_globals:
            return self.extra_globals[name]
        if mi is not None:
            if name in mi.functions:
                return V(TPy("func"), ("func", mi, None, mi.functions[name]))
            if name in mi.classes:
                return V(TPy("class"), ("class", mi.classes[name]))
            if name in mi.consts:
                return self.eval_module_const(mi, name, st)
            if name in mi.imports:
                mod, item = mi.imports[name]
                target = self.repo.modules.get(mod)
                if item is None:
                    return V(TPy("module"), ("module", mod))
                if target is not None:
                    if item in target.functions:
                        return V(TPy("func"), ("func", target, None, target.functions[item]))
                    if item in target.classes:
                        return V(TPy("class"), ("class", target.classes[item]))
                    if item in target.consts:
                        return self.eval_module_const(target, item, st)
                    if item in target.imports:
                        saved = self.ctx[-1]
                        self.ctx.append((target, None, None))
                        try:
                            return self.resolve_global(item, st, node)
                        finally:
                            self.ctx.pop()
                sub = self.repo.modules.get(f"{mod}.{item}")
                if sub is not None:
                    return V(TPy("module"), ("module", sub.name))
                return V(TPy("extern"), ("extern", mod, item))
        if name in BUILTIN_NAMES:
            return V(TPy("builtin"), ("builtin", name))
        if name in ("True", "False"):
            return V(BOOL, z3.BoolVal(name == "True"))
        if name in self.repo.classes:
            return V(TPy("class"), ("class", self.repo.classes[name]))
        raise Unsupported(f"unresolved name {name} at line {getattr(node, 'lineno', 0)}")

    def eval_module_const(self, mi, name, st) -> V:
        key = (mi.name, name)
        if key in self.const_cache:
            return self.const_cache[key]
        tbl = self.class_table_const(mi, mi.consts[name])
        if tbl is not None:
            self.const_cache[key] = tbl
            return tbl
        nd = mi.consts[name]
        if isinstance(nd, ast.Dict) and nd.keys and all(isinstance(k, ast.Constant) and isinstance(k.value, (str, int))
                                                       for k in nd.keys):
            # a module-level table with literal keys (values may be objects of external libraries): only membership of a
            # key is modelled
            v = V(TPy("keytable"), ("keytable", [k.value for k in nd.keys], f"{mi.name}.{name}"))
            self.const_cache[key] = v
            return v
        self.ctx.append((mi, None, None))
        try:
            tmp = State()
            v = self.ev(mi.consts[name], tmp)
            if tmp.pc:
                # definitional facts of a constant are global
                for f in tmp.pc:
                    self.global_facts.append(f)
        finally:
            self.ctx.pop()
        self.const_cache[key] = v
        return v

    def class_table_const(self, mi, node):
        """`dict((cls.attr, cls) for cls in CLASSES)` with CLASSES a module-level list of class names: a dispatch table.
        The engine does not track which key maps to which class; a lookup yields 'one of these classes or None'."""
        if not (isinstance(node, ast.Call) and isinstance(node.func, ast.Name) and node.func.id == "dict" and len(node.args) == 1
                and isinstance(node.args[0], ast.GeneratorExp) and len(node.args[0].generators) == 1):
            return None
        gen = node.args[0].generators[0]
        if not isinstance(gen.iter, ast.Name) or gen.iter.id not in mi.consts:
            return None
        lst = mi.consts[gen.iter.id]
        if not (isinstance(lst, ast.List) and lst.elts and all(isinstance(e, ast.Name) and e.id in mi.classes for e in lst.elts)):
            return None
        return V(TPy("class_table"), ("class_table", [mi.classes[e.id] for e in lst.elts]))

    def construct_any(self, classes, flag, args, kwargs, st, node) -> V:
        """Call of a class picked from a dispatch table: some class of the table is instantiated.  Modular argument:
        every candidate constructor must carry a contract whose only exceptional exit is ValueError and which writes
        nothing but the new object; those contracts become dependencies of this unit (verified in the same check)."""
        self.may_raise(st, z3.Not(flag), "TypeError", node, "None is not callable")
        bases = None
        for ci in classes:
            m = self.repo.lookup_method(ci, "__init__")
            if m is None:
                raise Unsupported(f"dispatch table class {ci.name} has no constructor")
            mci, mnode = m
            qual = self.qual_of(self.repo.modules[mci.module], mci, mnode)
            c = self.reg.contracts.get(qual)
            if c is None:
                raise Unsupported(f"dispatch table class {ci.name}: constructor {qual} has no contract")
            if any(not self.exc_subclass(exc, "ValueError") for exc in c.raises):
                raise Unsupported(f"dispatch table class {ci.name}: constructor contract allows {sorted(c.raises)}")
            if any(not mod.strip().startswith("self.") for mod in c.modifies):
                raise Unsupported(f"dispatch table class {ci.name}: constructor contract writes outside the new object")
            self.used_contracts.add(qual)
        self.may_raise(st, z3.Bool(fresh_name("ctor_raises")), "ValueError", node, "a constructor of the dispatch table rejects the body")
        # static type of the result: the nearest class every candidate derives from
        common = None
        cur = classes[0]
        seen = set()
        while cur is not None and cur.qual not in seen:
            seen.add(cur.qual)
            if all(self.repo.is_subclass(c2, cur.name) for c2 in classes):
                common = cur.name
                break
            nxt = None
            for bname in cur.bases:
                cand = self.repo.resolve_class(cur.module, bname)
                if cand is not None:
                    nxt = cand
                    break
            cur = nxt
        if common is None:
            raise Unsupported("dispatch table classes have no common base class")
        ref = self.new_ref(st, "obj")
        return V(TObj(common), ref)

    def eval_class_const(self, ci, name, st) -> V:
        key = (ci.qual, name)
        if key in self.const_cache:
            return self.const_cache[key]
        mi = self.repo.modules[ci.module]
        self.ctx.append((mi, ci, None))
        try:
            tmp = State()
            v = self.ev(ci.class_consts[name], tmp)
            for f in tmp.pc:
                self.global_facts.append(f)
        finally:
            self.ctx.pop()
        self.const_cache[key] = v
        return v

    def py_getattr(self, base: V, attr: str, st, node) -> V:
        kind = base.z[0]
        if kind == "module":
            mod = base.z[1]
            target = self.repo.modules.get(mod)
            if target is not None:
                self.ctx.append((target, None, None))
                try:
                    return self.resolve_global(attr, st, node)
                finally:
                    self.ctx.pop()
            return V(TPy("extern"), ("extern", mod, attr))
        if kind == "class":
            ci = base.z[1]
            if ci.is_enum:
                for idx, (mname, _val) in enumerate(ci.enum_members):
                    if mname == attr:
                        return V(TEnum(ci.name), I(idx + 1))
            m = self.repo.lookup_method(ci, attr)
            if m is not None:
                mci, mnode = m
                decs = mci.decorators.get(attr, [])
                if "classmethod" in decs:
                    return V(TPy("bound"), ("bound", base, mci, mnode))
                return V(TPy("func"), ("func", self.repo.modules[mci.module], mci, mnode))
            if attr in ci.class_consts:
                return self.eval_class_const(ci, attr, st)
            if attr in ci.nested:
                return V(TPy("class"), ("class", ci.nested[attr]))
            raise Unsupported(f"class attribute {ci.name}.{attr}")
        if kind == "super":
            _, selfv, ci = base.z
            # next class in the (single-inheritance) chain that defines the method inside the repo
            for bname in ci.bases:
                cand = self.repo.resolve_class(ci.module, bname)
                if cand is not None:
                    m = self.repo.lookup_method(cand, attr)
                    if m is not None:
                        return V(TPy("bound"), ("bound", selfv, m[0], m[1]))
            return V(TPy("super_extern"), ("super_extern", selfv, attr))
        if kind == "class_table":
            if attr == "get":
                return V(TPy("class_table_get"), ("class_table_get", base.z[1]))
            raise Unsupported(f"dispatch table .{attr}")
        if kind == "extern":
            return V(TPy("extern"), ("extern", base.z[1] + "." + base.z[2], attr))
        if kind == "exc":
            return fresh(ANY, "excattr")
        raise Unsupported(f"attribute {attr} of python-level {kind}")

    # ---------------------------------------------------------------- call dispatch
    def call_expr(self, e: ast.Call, st: State) -> V:
        f = e.func
        # logging calls are dropped (DESIGN 2.2)
        if isinstance(f, ast.Attribute) and f.attr in LOG_NAMES and isinstance(f.value, ast.Name) and f.value.id in (
                "logger", "logging"):
            return V(NONE, None)
        if isinstance(f, ast.Attribute) and f.attr.endswith(("__log_debug", "__log_warning")) or (
                isinstance(f, ast.Attribute) and f.attr in ("_RTCSctpTransport__log_debug",)):
            return V(NONE, None)
        # special syntactic forms
        sp = self.special_form(e, st)
        if sp is not None:
            return sp
        fv = self.ev(f, st)
        if any(k.arg is None for k in e.keywords):
            raise Unsupported(f"star-args call {self.src(e)}")
        args = []
        for a in e.args:
            if isinstance(a, ast.Starred):
                tv = self.ev(a.value, st)
                if not isinstance(tv.t, TTuple):
                    raise Unsupported(f"star-args call with a non-tuple {self.src(e)}")
                args.extend(tv.z)        # f(*t) with a tuple of known arity
            else:
                args.append(self.ev(a, st))
        kwargs = {k.arg: self.ev(k.value, st) for k in e.keywords}
        return self.apply(fv, args, kwargs, st, e)
        args = [self.ev(a, st) for a in e.args]
        kwargs = {k.arg: self.ev(k.value, st) for k in e.keywords}
        return self.apply(fv, args, kwargs, st, e)

    def apply(self, fv: V, args, kwargs, st, node) -> V:
        if not isinstance(fv.t, TPy):
            raise Unsupported(f"call of non-callable {fv.t}: {self.src(node)}")
        kind = fv.z[0]
        if kind == "builtin":
            return self.call_builtin(fv.z[1], args, kwargs, st, node)
        if kind == "extern":
            return self.call_extern(fv.z[1], fv.z[2], args, kwargs, st, node)
        if kind == "func":
            _, mi, ci, fnode = fv.z
            return self.call_function(st, ci, fnode, args, kwargs, node, mi=mi)
        if kind == "bound":
            _, recv, mci, mnode = fv.z
            return self.call_function(st, mci, mnode, [recv] + args, kwargs, node)
        if kind == "class":
            return self.construct(fv.z[1], args, kwargs, st, node)
        if kind == "bmeth":
            return self.call_builtin_method(fv.z[1], fv.z[2], args, kwargs, st, node)
        if kind == "lambda":
            _, lam, env, ctx = fv.z
            return self.call_lambda(lam, env, ctx, args, st, node)
        if kind == "closure":
            _, fnode, ctx = fv.z
            return self.call_function(st, ctx[1], fnode, args, kwargs, node, mi=ctx[0], closure_env=dict(st.locals))
        if kind == "opaque_attr":
            return self.call_opaque(fv.z[1], fv.z[2], args, kwargs, st, node)
        if kind == "class_table_get":
            return V(TPy("class_choice"), ("class_choice", fv.z[1], z3.Bool(fresh_name("found"))))
        if kind == "class_choice":
            return self.construct_any(fv.z[1], fv.z[2], args, kwargs, st, node)
        if kind == "super_extern":
            # method of a base class outside the repository (pyee's AsyncIOEventEmitter, Exception, ...): assumed to touch
            # no modelled state; the emitter's constructor starts the ghost event log empty
            _, selfv, attr = fv.z
            if attr == "__init__" and isinstance(selfv.t, TObj):
                ft = self.field_type(selfv.t.cls, "emitted")
                if ft is not None and isinstance(ft[1], TList):
                    self.write_field(st, selfv.z, ft[0], "emitted", ft[1], self.new_list_from_seq(st, ft[1].elt, theory_of(ft[1]).Empty))
            self.note_assumption(f"super().{attr}() of an external base class assumed to touch no modelled state")
            return V(NONE, None)
        if kind == "emitter":
            return self.call_emitter(fv.z[1], fv.z[2], args, kwargs, st, node)
        raise Unsupported(f"call of python-level {kind}: {self.src(node)}")

    def call_emitter(self, recv, attr, args, kwargs, st, node):
        """pyee API on a repo class.  emit(name, ...) is observable: when the class sidecar declares the ghost field
        `emitted: list[str]` the event name is appended to it (the run-time reading records real emit() calls the
        same way).  Listeners are assumed not to re-enter the object (A-EXT); other emitter methods are effect-free."""
        if attr == "emit" and args and isinstance(args[0].t, TStr) and isinstance(recv.t, TObj):
            ft = self.field_type(recv.t.cls, "emitted")
            if ft is not None and isinstance(ft[1], TList):
                lst = self.read_field(st, recv.z, ft[0], "emitted", ft[1])
                th = theory_of(lst.t)
                self.set_list_content(st, lst, th.App(self.list_content(st, lst), th.Unit(box(args[0]))))
                # optional log of 'message' events: ghost fields message_data (bytes: UTF-8 of a text argument, a binary
                # argument as is) and message_is_text, appended for emit("message", x) only
                fd = self.field_type(recv.t.cls, "message_data")
                ft2 = self.field_type(recv.t.cls, "message_is_text")
                is_msg = (isinstance(node, ast.Call) and node.args and isinstance(node.args[0], ast.Constant)
                          and node.args[0].value == "message")
                if fd is not None and ft2 is not None and is_msg:
                    arg = args[1] if len(args) > 1 else None
                    if arg is not None and isinstance(arg.t, TStr):
                        payload, is_text = prelude().utf8(arg.z), z3.BoolVal(True)
                    elif arg is not None and isinstance(arg.t, TBytes):
                        payload, is_text = arg.z, z3.BoolVal(False)
                    else:
                        payload, is_text = prelude().Bytes.Empty, z3.BoolVal(False)
                    l1 = self.read_field(st, recv.z, fd[0], "message_data", fd[1])
                    t1 = theory_of(l1.t)
                    self.set_list_content(st, l1, t1.App(self.list_content(st, l1), t1.Unit(payload)))
                    l2 = self.read_field(st, recv.z, ft2[0], "message_is_text", ft2[1])
                    t2 = theory_of(l2.t)
                    self.set_list_content(st, l2, t2.App(self.list_content(st, l2), t2.Unit(is_text)))
                self.emit_discipline(recv, st, node)
                self.note_assumption("emit(): listeners assumed not to re-enter the emitting object")
                return V(BOOL, z3.Bool(fresh_name("had_listeners")))
        self.note_assumption(f"event-emitter call .{attr}() assumed effect-free and non-raising")
        return fresh(ANY, "opaque")

    def call_opaque(self, recv, attr, args, kwargs, st, node):
        """Method of an opaque object (timer handle, event emitter, asyncio object): assumed to
        return an unconstrained opaque value, to raise nothing and to touch no modelled state."""
        self.note_assumption(f"opaque call .{attr}() assumed effect-free and non-raising")
        c = self.cur_contract()
        if c is not None and attr in getattr(c, "pure_opaque", []) and isinstance(recv.t, TOpaque):
            f = prelude().func("uf_any!" + attr, prelude().Ref, prelude().Ref)
            return V(ANY, f(recv.z))
        return fresh(ANY, "opaque")

    def call_lambda(self, lam, env, ctx, args, st, node):
        params = [a.arg for a in lam.args.args]
        if len(params) != len(args):
            raise Unsupported("lambda arity")
        saved = st.frames[-1]
        frame = dict(env)
        frame.update(zip(params, args))
        st.frames[-1] = frame
        self.ctx.append(ctx)
        try:
            return self.ev(lam.body, st)
        finally:
            self.ctx.pop()
            st.frames[-1] = saved

    # ---------------------------------------------------------------- user functions
    def qual_of(self, mi, ci, fnode) -> str:
        if ci is not None:
            return f"{ci.module}:{ci.name}.{fnode.name}"
        return f"{mi.name}:{fnode.name}"

    def bind_params(self, fnode, ci, args, kwargs, st, node, skip_self_type=None):
        a = fnode.args
        if a.vararg or a.kwarg or a.posonlyargs:
            raise Unsupported(f"varargs in {fnode.name}")
        params = [x.arg for x in a.args]
        defaults = dict(zip(params[len(params) - len(a.defaults):], a.defaults))
        for x, d in zip(a.kwonlyargs, a.kw_defaults):
            params.append(x.arg)
            if d is not None:
                defaults[x.arg] = d
        bound = {}
        if len(args) > len(params):
            raise Unsupported(f"too many arguments for {fnode.name}")
        for p, v in zip(params, args):
            bound[p] = v
        for k, v in kwargs.items():
            if k not in params or k in bound:
                raise Unsupported(f"bad keyword {k} for {fnode.name}")
            bound[k] = v
        for p in params:
            if p not in bound:
                if p not in defaults:
                    raise Unsupported(f"missing argument {p} for {fnode.name}")
                bound[p] = ("default", defaults[p])
        return params, bound

    def call_function(self, st, ci, fnode, args, kwargs, node, mi=None, closure_env=None) -> V:
        if mi is None:
            mi = self.repo.modules[ci.module]
        qual = self.qual_of(mi, ci, fnode)
        decs = ci.decorators.get(fnode.name, []) if ci is not None else []
        if "staticmethod" in decs and args and isinstance(args[0].t, TPy) and args[0].z[0] == "class":
            args = args[1:]
        if isinstance(fnode, ast.AsyncFunctionDef) and not getattr(self, "_awaiting", 0):
            # calling an `async def` without awaiting it only creates a coroutine object: nothing runs here
            # (asyncio.ensure_future(self._flush()) schedules it for later; that later run is not part of this call)
            self.note_assumption(f"coroutine {qual} created but not awaited here: its later execution is outside this unit")
            return fresh(ANY, "coroutine")
        self.check_at_call(st, ci, fnode, args, kwargs, node)
        c = self.reg.contracts.get(qual)
        if c is not None and not c.inline and qual != self.unit_qual_inlining:
            return self.apply_contract(st, c, mi, ci, fnode, args, kwargs, node)
        if qual in self.opaque_callees or fnode.name in self.opaque_callees:
            self.note_assumption(f"call to {qual} treated as opaque (no effect, no exception)")
            return fresh(ANY, "opaque")
        return self.inline_call(st, mi, ci, fnode, args, kwargs, node, closure_env)

    def check_at_call(self, st, ci, fnode, args, kwargs, node):
        """at_call clauses of the unit under verification for this callee (only calls written in the unit's own body)."""
        if len(self.contract_stack) != 1 or self.spec_mode:
            return
        uc = self.contract_stack[-1]
        clauses = uc.at_call.get(fnode.name) if uc is not None and uc.at_call else None
        if not clauses:
            return
        params, bound = self.bind_params(fnode, ci, args, kwargs, st, node)
        env = {}
        for p in params:
            v = bound[p]
            if isinstance(v, tuple) and v and v[0] == "default":
                self.ctx.append((self.repo.modules[ci.module] if ci is not None else self.ctx[-1][0], ci, fnode))
                try:
                    v = self.ev(v[1], st)
                finally:
                    self.ctx.pop()
            env[p] = v
        env.pop("self", None)
        for k, r in enumerate(clauses):
            tmp = st.copy()
            tmp.frames = tmp.frames[:-1] + [dict(tmp.frames[-1], **env)]
            goal = self.ev_spec(r, tmp, old=self.entry_state)
            self.oblige(st, goal, f"at_call[{fnode.name}][{k}]", self.src(node), node, note=r)

    def inline_call(self, st, mi, ci, fnode, args, kwargs, node, closure_env=None) -> V:
        qual = self.qual_of(mi, ci, fnode)
        if self.inline_stack.count(qual) >= 1:
            raise Unsupported(f"recursive call to {qual} without contract")
        if len(self.inline_stack) > 12:
            raise Unsupported("inline depth")
        params, bound = self.bind_params(fnode, ci, args, kwargs, st, node)
        frame = dict(closure_env) if closure_env else {}
        self.ctx.append((mi, ci, fnode))
        self.inline_stack.append(qual)
        saved_contract = self.contract_stack[-1] if self.contract_stack else None
        self.contract_stack.append(self.reg.contracts.get(qual))
        saved_loops = self.loop_ordinals
        self.loop_ordinals = self.number_loops(fnode)
        is_gen = any(isinstance(n, (ast.Yield, ast.YieldFrom)) for n in ast.walk(fnode))
        try:
            for p in params:
                v = bound[p]
                if isinstance(v, tuple) and v and v[0] == "default":
                    tmp_frame = st.frames[-1]
                    v = self.ev(v[1], st)
                frame[p] = v
            if is_gen:
                yl = self.new_list(st, TOpaque("empty"), [])
                frame["$yield"] = yl
            st.frames.append(frame)
            self.sinks.append([])
            depth = len(st.frames)
            try:
                outs = self.exec_block(strip_docstring(fnode.body), st.copy() if False else st)
            finally:
                raised = self.sinks.pop()
            # exceptions propagate to the caller's sink with the caller's frames
            for oc in raised:
                oc.st.frames = oc.st.frames[:depth - 1]
                self.sinks[-1].append(oc)
            rets = []
            for oc in outs:
                if oc.kind == "return":
                    val = oc.value
                elif oc.kind == "next":
                    val = V(NONE, None)
                else:
                    raise Unsupported(f"{oc.kind} escapes function {qual}")
                if is_gen:
                    val = oc.st.locals["$yield"]
                    if isinstance(val.t.elt, TOpaque):
                        val = V(TList(TOpaque("empty")), val.z)
                oc.st.frames = oc.st.frames[:depth - 1]
                rets.append((oc.st, val))
            if not rets:
                raise DeadPath()
            if len(rets) == 1:
                st.become(rets[0][0])
                return rets[0][1]
            # several return paths: merge (needs compatible result types)
            states = []
            for k, (s2, val) in enumerate(rets):
                s2.locals["$ret"] = val
                states.append(s2)
            merged = self.merge_states(states)
            if len(merged) != 1:
                for s2 in states:
                    s2.locals.pop("$ret", None)
                raise Unsupported(f"cannot merge the return paths of inlined {qual} (give it a contract)")
            st.become(merged[0])
            return st.locals.pop("$ret")
        finally:
            self.loop_ordinals = saved_loops
            self.contract_stack.pop()
            self.inline_stack.pop()
            self.ctx.pop()

    def number_loops(self, fnode) -> dict:
        out = {}
        n = 0
        for nd in ast.walk(fnode):
            pass
        # pre-order numbering
        def visit(node):
            nonlocal n
            for child in ast.iter_child_nodes(node):
                if isinstance(child, (ast.FunctionDef, ast.AsyncFunctionDef, ast.Lambda, ast.ClassDef)):
                    continue
                if isinstance(child, (ast.While, ast.For, ast.AsyncFor)):
                    out[id(child)] = n
                    n += 1
                visit(child)
        visit(fnode)
        return out

    # ---------------------------------------------------------------- contracts at call sites
    def apply_contract(self, st, c, mi, ci, fnode, args, kwargs, node) -> V:
        params, bound = self.bind_params(fnode, ci, args, kwargs, st, node)
        env = {}
        self.ctx.append((mi, ci, fnode))
        try:
            for p in params:
                v = bound[p]
                if isinstance(v, tuple) and v and v[0] == "default":
                    v = self.ev(v[1], st)
                if p in c.params:
                    pt = self.parse_type(c.params[p])
                    if isinstance(v.t, TOpt) and not isinstance(pt, (TOpt, TOpaque)):
                        # None passed where the callee computes with the value: TypeError in CPython
                        v = self.need_value(v, st, node, f"argument {p}")
                    v = self.coerce_to(st, v, pt)
                env[p] = v
            pre = st.copy()
            pre.frames = [dict(env)]
            cname = c.qual
            if self.spec_mode:
                # a contract function used inside a specification context (the predicate of filter(), a quantified
                # clause): nothing is owed and nothing may happen; the callee's postcondition is known where its
                # precondition holds, and says nothing elsewhere
                if self.contract_modifies(c, ci):
                    raise Unsupported(f"{cname} modifies state: not usable in a specification context")
                reqs = []
                for r in self.contract_requires(c, ci):
                    tmp = st.copy()
                    tmp.frames = [dict(env)]
                    reqs.append(self.ev_spec(r, tmp))
                self.used_contracts.add(cname)
                # the value must be a *term over the arguments* (they may contain bound variables): take it from a
                # defining clause `result == expr`; outside the precondition the value is an unconstrained function of them
                defining = None
                for r in self.contract_ensures(c, ci):
                    tr = ast.parse(r.strip(), mode="eval").body
                    if (isinstance(tr, ast.Compare) and len(tr.ops) == 1 and isinstance(tr.ops[0], ast.Eq)
                            and isinstance(tr.left, ast.Name) and tr.left.id == "result"):
                        defining = tr.comparators[0]
                        break
                if defining is None:
                    raise Unsupported(f"{cname} in a specification context needs a defining clause `result == expr`")
                tmp = st.copy()
                tmp.frames = [dict(env)]
                val = self.ev(defining, tmp)
                req = z3.And(*reqs) if reqs else z3.BoolVal(True)
                if z3.is_true(z3.simplify(req)):
                    return val
                argz = [box(env[p]) for p in params if not isinstance(env[p].t, (TTuple, TPy))]
                other = prelude().func("outside_pre!" + cname.replace(":", "_").replace(".", "_"),
                                       *([a.sort() for a in argz] + [sort_of(val.t)]))
                return ite(req, val, unbox(other(*argz), val.t))
            # requires: obligations of the *caller*
            for k, r in enumerate(self.contract_requires(c, ci)):
                tmp = st.copy()
                tmp.frames = [dict(env)]
                goal = self.ev_spec(r, tmp)
                self.oblige(st, goal, f"call[{cname}].requires[{k}]", self.src(node), node, note=r)
            self.used_contracts.add(cname)
            # frame: havoc what the callee may modify
            post = st
            for mod in self.contract_modifies(c, ci):
                self.havoc_modifies_entry(mod, pre, post, env=env)
            # result
            rt = self.parse_type(c.returns) if c.returns else NONE
            if isinstance(rt, TNone):
                result = V(NONE, None)
            elif c.fresh_result and isinstance(rt, (TObj, TList)):
                result = V(rt, self.new_ref(post, "res"))
            else:
                result = fresh(rt, "res")
                self.typing_facts(post, result) if not isinstance(rt, TTuple) else None
            # exceptional exits
            for exc, cond in c.raises.items():
                tmp = pre.copy()
                if cond is None:
                    flag = z3.Bool(fresh_name("raises_" + exc))
                elif cond.startswith("?"):
                    # necessary condition only: it may raise, and if it does the condition holds
                    flag = z3.And(z3.Bool(fresh_name("raises_" + exc)), self.ev_spec(cond[1:], tmp))
                else:
                    flag = self.ev_spec(cond, tmp)
                rs = post.copy()
                self.may_raise_state(post, rs, flag, exc, node, f"{cname} raises {exc}")
                if exc in c.raise_ensures:
                    pass
            # ensures
            tmp_frames = post.frames
            post.frames = tmp_frames + [dict(env)]
            post.locals["result"] = result
            try:
                for r in self.contract_ensures(c, ci):
                    post.pc.append(self.ev_spec(r, post, old=pre))
            finally:
                post.frames = tmp_frames
            return result
        finally:
            self.ctx.pop()

    def contract_requires(self, c, ci):
        from .contracts import active_clauses
        out = active_clauses(c.requires, self.instance)
        if ci is not None and c.invariants and not c.qual.endswith(".__init__"):
            spec = self.reg.classes.get(ci.qual)
            if spec is not None:
                out = list(spec.invariant) + out
        return out

    def contract_ensures(self, c, ci):
        from .contracts import active_clauses
        out = active_clauses(c.ensures, self.instance)
        if ci is not None and c.invariants:
            spec = self.reg.classes.get(ci.qual)
            if spec is not None:
                out = list(spec.invariant) + out
        return out

    def contract_modifies(self, c, ci):
        return list(c.modifies)

    def havoc_modifies_entry(self, mod: str, pre: State, post: State, env=None):
        """A modifies entry is 'expr.field', 'content(expr)' or '*Class.field' (whole map)."""
        mod = mod.strip()
        if mod.startswith("*"):
            key = mod[1:]
            m = post.heap.get(key, self.heap0.get(key))
            if m is None and key.startswith("list<"):
                # content map of lists of a primitive element type that this path has not read yet
                for elt in (INT, STR, BYTES, BOOL, REAL):
                    if self.list_key(elt) == key:
                        m = self.heap_map(post, key, theory_of(TList(elt)).S)
                        break
            if m is None:
                cname, _, attr = key.partition(".")
                ft = self.field_type(cname, attr)
                if ft is None:
                    raise Unsupported(f"modifies entry {mod}: unknown field")
                key = f"{ft[0]}.{attr}"
                m = self.heap_map(post, key, sort_of(ft[1]))
            post.heap[key] = z3.Const(fresh_name("H!" + key), m.sort())
            return
        tree = ast.parse(mod, mode="eval").body
        tmp = pre.copy()
        if env is not None:
            tmp.frames = [dict(env)]
        if isinstance(tree, ast.Call) and isinstance(tree.func, ast.Name) and tree.func.id == "content":
            base = self.ev(tree.args[0], tmp)
            if isinstance(base.t, TOpt):
                base = opt_get(base)
            if isinstance(base.t, TList):
                key, vs = self.list_key(base.t.elt), theory_of(base.t).S
                m = self.heap_map(post, key, vs)
                nm = z3.Const(fresh_name("H!" + key), m.sort())
                post.define(nm == z3.Store(m, base.z, z3.Const(fresh_name("content"), vs)))
                post.heap[key] = nm
                return
            if isinstance(base.t, TDict):
                name, ks, vs = self.dict_keys(base.t)
                for key, vsort in ((name + ".dom", z3.ArraySort(ks, Bool)), (name + ".val", z3.ArraySort(ks, vs))):
                    m = self.heap_map(post, key, vsort)
                    nm = z3.Const(fresh_name("H!" + key), m.sort())
                    post.define(nm == z3.Store(m, base.z, z3.Const(fresh_name("content"), vsort)))
                    post.heap[key] = nm
                return
            if isinstance(base.t, TSet):
                name, es = self.set_key(base.t)
                vsort = z3.ArraySort(es, Bool)
                m = self.heap_map(post, name, vsort)
                nm = z3.Const(fresh_name("H!" + name), m.sort())
                post.define(nm == z3.Store(m, base.z, z3.Const(fresh_name("content"), vsort)))
                post.heap[name] = nm
                return
            raise Unsupported(f"modifies content of {base.t}")
        if isinstance(tree, ast.Attribute):
            base = self.ev(tree.value, tmp)
            if isinstance(base.t, TOpt):
                base = opt_get(base)
            if not isinstance(base.t, TObj):
                raise Unsupported(f"modifies entry {mod}")
            saved = self.ctx[-1]
            an = self.mangle(tree.attr)
            if tree.attr.startswith("__") and not tree.attr.endswith("__") and \
                    self.field_type(base.t.cls, f"_{base.t.cls.lstrip('_')}{tree.attr}") is not None:
                an = f"_{base.t.cls.lstrip('_')}{tree.attr}"      # private field of the receiver's own class
            ft = self.field_type(base.t.cls, an)
            if ft is None:
                raise Unsupported(f"modifies entry {mod}: unknown field")
            decl, ftype = ft
            key = f"{decl}.{an}"
            m = self.heap_map(post, key, sort_of(ftype))
            nv = fresh(ftype, tree.attr)
            nm = z3.Const(fresh_name("H!" + key), m.sort())
            post.define(nm == z3.Store(m, base.z, box(nv)))
            post.heap[key] = nm
            if not isinstance(ftype, TTuple):
                self.typing_facts(post, nv)
            return
        raise Unsupported(f"modifies entry {mod}")

    def call_write_effects(self, n: ast.Call, st, stable):
        """Heap locations a call inside a loop body may write (for loop havoc)."""
        out = []
        f = n.func
        target = None
        recv_expr = None
        try:
            if isinstance(f, ast.Name):
                if f.id in st.locals:
                    return [("all",)]
                g = self.resolve_global(f.id, st, n)
                if isinstance(g.t, TPy) and g.z[0] == "func":
                    target = (g.z[1], g.z[2], g.z[3])
                elif isinstance(g.t, TPy) and g.z[0] == "class":
                    return []
                else:
                    return []
            elif isinstance(f, ast.Attribute):
                if f.attr in LOG_NAMES or f.attr.endswith(("__log_debug", "__log_warning")):
                    return []
                try:
                    base = self.ev(f.value, st.copy())
                except DeadPath:
                    return []
                if isinstance(base.t, TOpt):
                    base = opt_get(base)
                if isinstance(base.t, TObj):
                    ci = self.class_info(base.t.cls)
                    m = self.repo.lookup_method(ci, self.mangle(f.attr))
                    if m is None:
                        return []
                    target = (self.repo.modules[m[0].module], m[0], m[1])
                    recv_expr = f.value
                elif isinstance(base.t, TPy) and base.z[0] == "class":
                    ci = base.z[1]
                    m = self.repo.lookup_method(ci, f.attr)
                    if m is None:
                        return []
                    target = (self.repo.modules[m[0].module], m[0], m[1])
                else:
                    return []
        except Unsupported:
            return [("all",)]
        if target is None:
            return []
        mi, ci, fnode = target
        qual = self.qual_of(mi, ci, fnode)
        c = self.reg.contracts.get(qual)
        if c is not None and not c.inline:
            for mod in c.modifies:
                if mod.startswith("*"):
                    out.append(("map", mod[1:]))
                else:
                    # substitute the receiver for self when it is stable; otherwise whole map
                    tree = ast.parse(mod, mode="eval").body
                    inner = tree.args[0] if isinstance(tree, ast.Call) else tree
                    root = inner
                    while isinstance(root, ast.Attribute):
                        root = root.value
                    if isinstance(root, ast.Name) and root.id == "self" and recv_expr is not None and stable(recv_expr):
                        txt = mod.replace("self", "(" + ast.unparse(recv_expr) + ")", 1)
                        out.append(("expr", txt))
                    else:
                        out.append(("all",))
            return out
        # inlined callee: scan its body
        if qual in self._effects_in_progress:
            return [("all",)]
        self._effects_in_progress.add(qual)
        try:
            body = strip_docstring(fnode.body)
            self.ctx.append((mi, ci, fnode))
            try:
                inner_st = State()
                if ci is not None and recv_expr is not None:
                    inner_st.locals["self"] = self.ev(recv_expr, st.copy())
                sub = self.write_targets(body, inner_st)
            finally:
                self.ctx.pop()
            for w in sub:
                if w[0] in ("field", "content"):
                    expr = w[1]
                    root = expr
                    while isinstance(root, ast.Attribute):
                        root = root.value
                    if isinstance(root, ast.Name) and root.id == "self" and recv_expr is not None and stable(recv_expr):
                        # rewrite self.<...> relative to the receiver
                        new = _subst_self(expr, recv_expr)
                        out.append((w[0], new) + tuple(w[2:-1]) + (w[-1],))
                    else:
                        # local container of the callee: not visible to the caller
                        if isinstance(root, ast.Name) and root.id != "self" and root.id in assigned_in(fnode):
                            continue
                        out.append(("all",))
                else:
                    out.append(w)
        finally:
            self._effects_in_progress.discard(qual)
        return out

    # ---------------------------------------------------------------- constructors
    def construct(self, ci, args, kwargs, st, node) -> V:
        if self.exc_subclass(ci.name, "BaseException"):
            return V(TPy("exc"), ("exc", ci.name))
        qual = f"{ci.module}:{ci.name}.__init__"
        c = self.reg.contracts.get(qual)
        init = self.repo.lookup_method(ci, "__init__")
        ref = self.new_ref(st, ci.name)
        obj = V(TObj(ci.name), ref)
        self.assume_class_exact(st, ref, ci.name)
        if ci.is_dataclass and (init is None or init[0].name != ci.name or True) and init is None:
            # generated __init__ over the declared fields
            names = [f[0] for f in ci.dc_fields]
            bound = {}
            for n_, v in zip(names, args):
                bound[n_] = v
            bound.update(kwargs)
            for fname, ann, default in ci.dc_fields:
                ft = self.field_type(ci.name, fname)
                if ft is None:
                    raise Unsupported(f"dataclass field {ci.name}.{fname} has no usable type")
                decl, ftype = ft
                if fname in bound:
                    v = bound[fname]
                elif default is not None:
                    if isinstance(default, ast.Call) and isinstance(default.func, ast.Name) and default.func.id == "field":
                        fac = [k.value for k in default.keywords if k.arg == "default_factory"]
                        dv = [k.value for k in default.keywords if k.arg == "default"]
                        if fac and isinstance(fac[0], ast.Name) and fac[0].id == "list":
                            v = self.new_list_from_seq(st, ftype.elt, theory_of(ftype).Empty)
                        elif dv:
                            v = self.ev(dv[0], st)
                        else:
                            raise Unsupported("dataclass field factory")
                    else:
                        v = self.ev(default, st)
                else:
                    raise Unsupported(f"missing dataclass argument {fname} for {ci.name}")
                self.write_field(st, ref, decl, fname, ftype, self.coerce_to(st, v, ftype))
            post = self.repo.lookup_method(ci, "__post_init__")
            if post is not None:
                self.call_function(st, post[0], post[1], [obj], {}, node)
            return obj
        if init is None:
            return obj
        self.call_function(st, init[0], init[1], [obj] + args, kwargs, node)
        return obj

    def assume_class_exact(self, st, ref, cname):
        P = prelude()
        f = P.func("typeof", P.Ref, Int)
        st.define(f(ref) == self.class_id(cname))

    def class_id(self, cname):
        if cname not in self._class_ids:
            self._class_ids[cname] = len(self._class_ids) + 1
        return I(self._class_ids[cname])

    # ---------------------------------------------------------------- special forms
    def special_form(self, e: ast.Call, st):
        f = e.func
        # cast(T, x)
        if isinstance(f, ast.Name) and f.id == "cast" and len(e.args) == 2:
            return self.ev(e.args[1], st)
        # b"".join(<listcomp / list expr>)
        if isinstance(f, ast.Attribute) and f.attr == "join" and isinstance(f.value, ast.Constant) and f.value.value == b"":
            return self.bytes_join(e.args[0], st, e)
        # isinstance(x, C)
        if isinstance(f, ast.Name) and f.id == "isinstance" and len(e.args) == 2:
            return self.isinstance_of(e, st)
        # list(unpack_from("!" + ("L" * n), data, off))
        if isinstance(f, ast.Name) and f.id == "list" and len(e.args) == 1 and isinstance(e.args[0], ast.Call):
            inner = e.args[0]
            nm = inner.func.id if isinstance(inner.func, ast.Name) else (
                inner.func.attr if isinstance(inner.func, ast.Attribute) else None)
            if nm in ("unpack_from", "unpack") and inner.args and not isinstance(inner.args[0], ast.Constant):
                return self.dynamic_unpack(inner, st)
        # next(filter(lambda ..., seq), default) etc. handled in builtins
        return None

    def dynamic_unpack(self, call, st):
        """unpack_from('!' + ('L' * n), data, off): homogeneous dynamic format."""
        fmt = call.args[0]
        if not (isinstance(fmt, ast.BinOp) and isinstance(fmt.op, ast.Add) and isinstance(fmt.left, ast.Constant)
                and fmt.left.value in ("!", ">") and isinstance(fmt.right, ast.BinOp)
                and isinstance(fmt.right.op, ast.Mult) and isinstance(fmt.right.left, ast.Constant)
                and fmt.right.left.value in STRUCT_CODES):
            raise Unsupported(f"dynamic struct format {self.src(fmt)}")
        code = fmt.right.left.value
        size, signed = STRUCT_CODES[code]
        n = self.as_int(self.ev(fmt.right.right, st), st, call)
        data = self.ev(call.args[1], st)
        off = self.as_int(self.ev(call.args[2], st), st, call) if len(call.args) > 2 else I(0)
        B = prelude().Bytes
        cnt = z3.If(n < 0, I(0), n)
        fname = call.func.id if isinstance(call.func, ast.Name) else call.func.attr
        if fname == "unpack_from":
            self.may_raise(st, z3.Or(off < 0, B.Len(data.z) - off < size * cnt), "struct.error", call,
                           "unpack_from requires a larger buffer")
        else:
            self.may_raise(st, B.Len(data.z) != size * cnt, "struct.error", call, "unpack requires exact size")
        th = seq_theory(INT)
        r = z3.Const(fresh_name("unpacked"), th.S)
        k = z3.Int(fresh_name("k"))
        st.pc.append(th.Len(r) == cnt)
        st.pc.append(z3.ForAll([k], z3.Implies(z3.And(0 <= k, k < cnt),
                                               th.Idx(r, k) == self.read_int(data.z, off + size * k, size, signed, False)),
                               patterns=[th.Idx(r, k)]))
        return self.new_list_from_seq(st, INT, r)

    def known_bytes(self, term):
        """Byte terms of a bytes value whose construction is statically known, else None."""
        B = prelude().Bytes
        ent = self.bytes_items.get(term.get_id())
        if ent is not None:
            return list(ent[1])
        name = str(term)
        if z3.is_const(term) and name.startswith("bytes!"):
            return [I(b) for b in bytes.fromhex(name[6:])]
        if z3.is_app(term) and term.decl().eq(B.App):
            a, b = self.known_bytes(term.arg(0)), self.known_bytes(term.arg(1))
            if a is not None and b is not None:
                return a + b
        return None

    def bytes_join(self, arg, st, node):
        """b''.join([f(x) for x in xs]) for elements of one static length: summarised by
        its length and its content (per element, per byte)."""
        P = prelude()
        B = P.Bytes
        if isinstance(arg, (ast.ListComp, ast.GeneratorExp)) and len(arg.generators) == 1 and not arg.generators[0].ifs:
            gen = arg.generators[0]
            src = self.ev(gen.iter, st)
            th, seq, elt, post = self.iter_sequence(src, st, node)
            k = z3.Int(fresh_name("k"))
            item = unbox(th.Idx(seq, k), elt)
            sub = st.copy()
            sub.frames = st.frames[:-1] + [dict(st.locals)]
            n0 = len(sub.pc)
            sub.pc.append(z3.And(0 <= k, k < th.Len(seq)))
            self.sinks.append([])
            try:
                self.assign(gen.target, item, sub, node)
                ev = self.ev(arg.elt, sub)
            finally:
                raised = self.sinks.pop()
            for oc in raised:
                self.sinks[-1].append(oc)   # "some element raises": k is a free constant there
            if not isinstance(ev.t, TBytes):
                raise Unsupported("join of non-bytes elements")
            items = self.known_bytes(ev.z)
            if items is None:
                # variable-length elements: fall back to JoinData over the element list
                lst = self.comprehension(arg, st)
                return self.join_value(lst, st, node)
            # inline the definitional equations introduced while evaluating the element
            subst = []
            for f in sub.pc[n0 + 1:]:
                if z3.is_eq(f) and z3.is_const(f.arg(0)) and f.arg(0).decl().kind() == z3.Z3_OP_UNINTERPRETED:
                    subst.append((f.arg(0), f.arg(1)))
            for c, t in reversed(subst):
                items = [z3.substitute(x, (c, t)) for x in items]
            L = len(items)
            r = z3.Const(fresh_name("joined"), B.S)
            n = th.Len(seq)
            st.pc.append(B.Len(r) == L * n)
            if L:
                st.pc.append(z3.ForAll([k], z3.Implies(z3.And(0 <= k, k < n),
                                                       z3.And(*[B.Idx(r, L * k + j) == items[j] for j in range(L)])),
                                       patterns=[th.Idx(seq, k)]))
            return V(BYTES, r)
        v = self.ev(arg, st)
        return self.join_value(v, st, node)

    def join_value(self, v, st, node):
        """b''.join(list_of_bytes): JoinData spec function with cons/append lemmas."""
        P = prelude()
        if isinstance(v.t, TList) and isinstance(v.t.elt, TBytes):
            th = theory_of(v.t)
            return V(BYTES, self.joindata(th)(self.list_content(st, v)))
        if isinstance(v.t, TSeq) and isinstance(v.t.elt, TBytes):
            th = theory_of(v.t)
            return V(BYTES, self.joindata(th)(v.z))
        raise Unsupported(f"join of {v.t}")

    def joindata(self, th):
        P = prelude()
        B = P.Bytes
        name = "Join<" + th.name + ">"
        if name not in P.funcs:
            f = P.func(name, th.S, B.S)
            a, b = z3.Consts("a b", th.S)
            x = z3.Const("x", B.S)
            P.axioms.append(f(th.Empty) == B.Empty)
            P.axioms.append(z3.ForAll([x], f(th.Unit(x)) == x, patterns=[f(th.Unit(x))]))
            P.axioms.append(z3.ForAll([a, b], f(th.App(a, b)) == B.App(f(a), f(b)), patterns=[f(th.App(a, b))]))
            # short sequences, stated directly (a pointwise-defined sequence is not syntactically a Unit)
            P.axioms.append(z3.ForAll([a], z3.Implies(th.Len(a) == 1, f(a) == th.Idx(a, 0)), patterns=[f(a)]))
            P.axioms.append(z3.ForAll([a], z3.Implies(th.Len(a) == 0, f(a) == B.Empty), patterns=[f(a)]))
            # congruence through extensionality: mentioning Eq(a, b) makes E-matching unfold its definition
            P.axioms.append(z3.ForAll([a, b], z3.Implies(th.Eq(a, b), f(a) == f(b)),
                                      patterns=[z3.MultiPattern(f(a), f(b))]))
        return P.funcs[name]

    def isinstance_of(self, e, st):
        v = self.ev(e.args[0], st)
        cls = e.args[1]
        names = [ast.unparse(x) for x in cls.elts] if isinstance(cls, ast.Tuple) else [ast.unparse(cls)]
        res = []
        for nm in names:
            res.append(self.isinstance_name(v, nm, st))
        return V(BOOL, z3.Or(*res) if len(res) > 1 else res[0])

    def isinstance_name(self, v: V, nm: str, st):
        t = v.t
        prim = {"int": TInt, "bool": TBool, "float": TReal, "bytes": TBytes, "str": TStr, "list": TList,
                "dict": TDict, "tuple": TTuple}
        if isinstance(t, TOpt):
            return z3.And(z3.Not(opt_is_none(v)), self.isinstance_name(opt_get(v), nm, st))
        if nm in prim:
            if nm == "int" and isinstance(t, TBool):
                return z3.BoolVal(True)
            return z3.BoolVal(isinstance(t, prim[nm]))
        if isinstance(t, TObj):
            ci = self.repo.classes.get(t.cls)
            target = self.repo.classes.get(nm.split(".")[-1])
            if ci is not None and target is not None:
                if self.repo.is_subclass(ci, target.name):
                    return z3.BoolVal(True)
                if not self.repo.is_subclass(target, ci.name):
                    return z3.BoolVal(False)
                # static type is a superclass: dynamic test on typeof
                P = prelude()
                f = P.func("typeof", P.Ref, Int)
                ids = [self.class_id(target.name)] + [self.class_id(s.name) for s in self.repo.subclasses(target.name)]
                return z3.Or(*[f(v.z) == i for i in ids])
        if isinstance(t, (TInt, TBool, TReal, TBytes, TStr, TTuple, TNone)):
            return z3.BoolVal(False)
        raise Unsupported(f"isinstance({t}, {nm})")

    # ---------------------------------------------------------------- comprehensions
    def comprehension(self, e, st, as_list=True) -> V:
        """[f(x) for x in xs (if c)]: without filter the result is defined pointwise;
        with a filter only membership facts are given."""
        if len(e.generators) != 1:
            raise Unsupported("nested comprehension")
        gen = e.generators[0]
        src = self.ev(gen.iter, st)
        items = self.static_items(src, st)
        if items is not None and len(items) <= 64 and not gen.ifs:
            out = []
            saved = dict(st.locals)
            for it in items:
                self.assign(gen.target, it, st, e)
                out.append(self.ev(e.elt, st))
            st.frames[-1] = saved
            if not out:
                return self.new_list(st, TOpaque("empty"), [])
            t = out[0].t
            for o in out[1:]:
                t = join_types(t, o.t)
            return self.new_list(st, t, [coerce(o, t) for o in out])
        k = z3.Int(fresh_name("k"))
        if self.is_range(src) and not gen.ifs:
            # [f(i) for i in range(lo, hi)] with symbolic bounds (step 1): defined pointwise, length max(hi - lo, 0)
            _, lo, hi, step = src.z
            if not (z3.is_int_value(z3.simplify(step)) and z3.simplify(step).as_long() == 1):
                raise Unsupported("comprehension over a range with step != 1")
            n = z3.If(hi - lo >= 0, hi - lo, 0)
            sub = st.copy()
            sub.frames = st.frames[:-1] + [dict(st.locals)]
            inrange = z3.And(0 <= k, k < n)
            sub.pc.append(inrange)
            self.sinks.append([])
            try:
                self.assign(gen.target, V(INT, lo + k), sub, e)
                val = self.ev(e.elt, sub)
            finally:
                raised = self.sinks.pop()
            for oc in raised:
                self.sinks[-1].append(oc)
            hint = getattr(e, "_elt_hint", None)
            if hint is not None:
                val = coerce(val, hint)
            elif isinstance(val.t, TNone):
                raise Unsupported("comprehension of None needs an element type (annotate the target or declare the field)")
            rth = seq_theory(val.t)
            r = z3.Const(fresh_name("comp"), rth.S)
            vz = box(val)
            for f in sub.pc[len(st.pc) + 1:]:
                if z3.is_eq(f) and z3.is_const(f.arg(0)) and f.arg(0).decl().kind() == z3.Z3_OP_UNINTERPRETED:
                    vz = z3.substitute(vz, (f.arg(0), f.arg(1)))
            st.pc.append(rth.Len(r) == n)
            st.pc.append(z3.ForAll([k], z3.Implies(inrange, rth.Idx(r, k) == vz), patterns=[rth.Idx(r, k)]))
            return self.new_list_from_seq(st, val.t, r)
        th, seq, elt, post = self.iter_sequence(src, st, e)
        item = unbox(th.Idx(seq, k), elt)
        if post is not None:
            item = post(st, k, item)
        sub = st.copy()
        sub.frames = st.frames[:-1] + [dict(st.locals)]
        inrange = z3.And(0 <= k, k < th.Len(seq))
        sub.pc.append(inrange)
        self.sinks.append([])
        try:
            self.assign(gen.target, item, sub, e)
            conds = [self.truth(self.ev(c, sub), sub) for c in gen.ifs]
            val = self.ev(e.elt, sub)
        finally:
            raised = self.sinks.pop()
        for oc in raised:
            self.sinks[-1].append(oc)
        body_facts = sub.pc[len(st.pc) + 1:]
        rth = seq_theory(val.t)
        r = z3.Const(fresh_name("comp"), rth.S)
        vz = box(val)
        subst = []
        for f in body_facts:
            if z3.is_eq(f) and z3.is_const(f.arg(0)) and f.arg(0).decl().kind() == z3.Z3_OP_UNINTERPRETED:
                subst.append((f.arg(0), f.arg(1)))
        for c, t in reversed(subst):
            vz = z3.substitute(vz, (c, t))
            conds = [z3.substitute(x, (c, t)) for x in conds]
        if not gen.ifs:
            st.pc.append(rth.Len(r) == th.Len(seq))
            st.pc.append(z3.ForAll([k], z3.Implies(inrange, rth.Idx(r, k) == vz),
                                   patterns=[rth.Idx(r, k), th.Idx(seq, k)]))   # either side of the map fires it
        else:
            # filtered: every element of r is the image of a source element satisfying the filter
            j = z3.Int(fresh_name("j"))
            st.pc.append(rth.Len(r) <= th.Len(seq))
            cond = z3.And(*conds)
            st.pc.append(z3.ForAll([j], z3.Implies(z3.And(0 <= j, j < rth.Len(r)),
                                                   z3.Exists([k], z3.And(inrange, cond, rth.Idx(r, j) == vz))),
                                   patterns=[rth.Idx(r, j)]))
            st.pc.append(z3.ForAll([k], z3.Implies(z3.And(inrange, cond),
                                                   z3.Exists([j], z3.And(0 <= j, j < rth.Len(r), rth.Idx(r, j) == vz))),
                                   patterns=[th.Idx(seq, k)]))
        return self.new_list_from_seq(st, val.t, r)

    # ---------------------------------------------------------------- struct helpers
    def read_int(self, data, off, size, signed, little):
        B = prelude().Bytes
        total = None
        for j in range(size):
            pos = (size - 1 - j) if not little else j
            term = B.Idx(data, off + j if not z3.is_int_value(off) else I(off.as_long() + j)) * (256 ** pos)
            total = term if total is None else total + term
        if signed:
            half = 2 ** (8 * size - 1)
            total = z3.If(total >= half, total - 2 ** (8 * size), total)
        return total

    def write_int(self, val, size, signed, little, st):
        """Byte terms of val: fresh digits d_j with 0 <= d_j < 256 and sum d_j*256^pos == val mod 2^(8*size).
        Total and unique (base-256 representation), hence a definition; two's complement for free."""
        if size == 1:
            return [val % 256]
        digits = [z3.Int(fresh_name("dg")) for _ in range(size)]
        total = None
        for j, d in enumerate(digits):
            pos = (size - 1 - j) if not little else j
            st.define(z3.And(0 <= d, d < 256))
            term = d * (256 ** pos) if pos else d
            total = term if total is None else total + term
        st.define(total == val % (256 ** size))
        return digits

    def struct_pack(self, fmt: str, vals, st, node) -> V:
        little, items = parse_struct_fmt(fmt)
        B = prelude().Bytes
        n_vals = sum(1 for c in items if c[0] != "x")
        if n_vals != len(vals):
            self.may_raise(st, z3.BoolVal(True), "struct.error", node, "pack argument count")
            raise DeadPath()
        out = []
        vi = 0
        for code, size, signed in items:
            if code == "x":
                out.append(I(0))
                continue
            v = vals[vi]
            vi += 1
            v = self.need_value(v, st, node, "struct.pack argument")
            if not isinstance(v.t, (TInt, TBool, TEnum)):
                self.may_raise(st, z3.BoolVal(True), "struct.error", node, "pack argument is not an integer")
                raise DeadPath()
            x = self.as_int(v, st, node)
            lo, hi = (-(2 ** (8 * size - 1)), 2 ** (8 * size - 1) - 1) if signed else (0, 2 ** (8 * size) - 1)
            self.may_raise(st, z3.Or(x < lo, x > hi), "struct.error", node, f"'{code}' format requires {lo} <= number <= {hi}")
            xb = self.bind(st, V(INT, x), "pk").z
            out.extend(self.write_int(xb, size, signed, little, st))
        r = z3.Const(fresh_name("packed"), B.S)
        st.define(B.Len(r) == len(out))
        for j, b in enumerate(out):
            st.define(B.Idx(r, j) == b)
        self.bytes_items[r.get_id()] = (r, out)
        return V(BYTES, r)

    def struct_unpack(self, fmt: str, data: V, off, st, node, exact: bool) -> V:
        little, items = parse_struct_fmt(fmt)
        B = prelude().Bytes
        total = sum(c[1] for c in items)
        data = self.need_value(data, st, node, "buffer")
        if not isinstance(data.t, TBytes):
            raise Unsupported(f"unpack of {data.t}")
        n = B.Len(data.z)
        if exact:
            self.may_raise(st, n != total, "struct.error", node, f"unpack requires a buffer of {total} bytes")
            off = I(0)
        else:
            self.may_raise(st, z3.Or(off < 0, n - off < total), "struct.error", node,
                           f"unpack_from requires a buffer of at least {total} bytes")
        vals = []
        pos = 0
        for code, size, signed in items:
            if code != "x":
                vals.append(V(INT, self.read_int(data.z, off + pos if not z3.is_int_value(off) else I(off.as_long() + pos),
                                                 size, signed, little)))
            pos += size
        return V(TTuple(tuple(INT for _ in vals)), tuple(vals))


def _subst_self(expr, recv_expr):
    import copy
    e = copy.deepcopy(expr)

    class T(ast.NodeTransformer):
        def visit_Name(self, n):
            if n.id == "self":
                return copy.deepcopy(recv_expr)
            return n
    return T().visit(e)


def assigned_in(fnode):
    from .stmt import assigned_names
    return assigned_names(fnode.body)


BUILTIN_NAMES = {"super", "pow", "len", "min", "max", "abs", "int", "bool", "bytes", "list", "tuple", "set", "dict", "sorted", "range",
                 "round", "enumerate", "zip", "isinstance", "float", "str", "next", "filter", "map", "any", "all",
                 "sum", "print", "repr", "ord", "chr", "getattr", "hasattr", "id", "iter", "reversed", "divmod",
                 "ValueError", "TypeError", "KeyError", "IndexError", "AssertionError", "Exception", "bytearray",
                 "ConnectionError", "StopIteration", "NotImplementedError", "RuntimeError", "AttributeError",
                 "ZeroDivisionError", "UnicodeDecodeError", "OSError", "super", "type", "object", "frozenset"}
