"""Counter-model -> concrete inputs (JSON) for replay on the real code."""
from __future__ import annotations

import z3

from .prelude import prelude
from .ptypes import *  # noqa
from .values import V, TPy, sort_of, theory_of, opt_is_none, opt_get, unbox, Unsupported

MAXLEN = 4096


def _int(model, term, default=0):
    try:
        v = model.eval(term, model_completion=True)
        if z3.is_int_value(v):
            return v.as_long()
        if z3.is_rational_value(v):
            return float(v.numerator_as_long()) / float(v.denominator_as_long())
    except Exception:
        pass
    return default


def _bool(model, term):
    try:
        return z3.is_true(model.eval(term, model_completion=True))
    except Exception:
        return False


class Extractor:
    def __init__(self, ex, model):
        self.ex = ex
        self.model = model
        self.depth = 0

    def seq_items(self, th, term, elt):
        n = _int(self.model, th.Len(term))
        n = max(0, min(n, MAXLEN))
        return [self.value(unbox(th.Idx(term, z3.IntVal(k)), elt)) for k in range(n)]

    def heap0(self, key, vsort):
        m = self.ex.heap0.get(key)
        if m is None:
            m = z3.Const("H0!" + key, z3.ArraySort(prelude().Ref, vsort))
        return m

    def value(self, v: V):
        t = v.t
        m = self.model
        if isinstance(t, (TInt, TEnum)):
            return _int(m, v.z)
        if isinstance(t, TBool):
            return _bool(m, v.z)
        if isinstance(t, TReal):
            return _int(m, v.z, 0.0)
        if isinstance(t, TNone):
            return None
        if isinstance(t, TBytes):
            th = prelude().Bytes
            n = max(0, min(_int(m, th.Len(v.z)), MAXLEN))
            return {"$bytes": bytes(max(0, min(255, _int(m, th.Idx(v.z, z3.IntVal(k))))) for k in range(n)).hex()}
        if isinstance(t, TStr):
            P = prelude()
            for text, c in P.strlits.items():
                if _bool(m, v.z == c):
                    return text
            n = max(0, min(_int(m, P.strlen(v.z)), 64))
            nb = _int(m, P.Bytes.Len(P.utf8(v.z)))
            if nb > n and n > 0:
                return "é" * min(n, nb - n) + "a" * max(0, n - (nb - n))
            return "a" * n
        if isinstance(t, TTuple):
            return {"$tuple": [self.value(x) for x in v.z]}
        if isinstance(t, TSeq):
            return self.seq_items(theory_of(t), v.z, t.elt)
        if isinstance(t, TOpt):
            if _bool(m, opt_is_none(v)):
                return None
            return self.value(opt_get(v))
        if isinstance(t, TList):
            th = theory_of(t)
            content = z3.Select(self.heap0(self.ex.list_key(t.elt), th.S), v.z)
            return self.seq_items(th, content, t.elt)
        if isinstance(t, TDict):
            return {"$dict": []}
        if isinstance(t, TSet):
            return {"$set": []}
        if isinstance(t, TObj):
            self.depth += 1
            try:
                if self.depth > 4:
                    return None
                return self.obj(v)
            finally:
                self.depth -= 1
        if isinstance(t, TOpaque):
            return None
        return None

    def obj(self, v: V):
        ex = self.ex
        ci = ex.repo.classes.get(v.t.cls)
        out = {"$class": v.t.cls}
        names = []
        cur = ci
        seen = set()
        while cur is not None and cur.qual not in seen:
            seen.add(cur.qual)
            spec = ex.reg.classes.get(cur.qual)
            if spec is not None:
                names += [n for n in spec.fields if n not in names]
            if cur.is_dataclass:
                names += [f[0] for f in cur.dc_fields if f[0] not in names]
            nxt = None
            for b in cur.bases:
                cand = ex.repo.resolve_class(cur.module, b)
                if cand is not None:
                    nxt = cand
                    break
            cur = nxt
        for fname in names:
            ft = ex.field_type(v.t.cls, fname)
            if ft is None:
                continue
            decl, ftype = ft
            term = z3.Select(self.heap0(f"{decl}.{fname}", sort_of(ftype)), v.z)
            out[fname] = self.value(unbox(term, ftype))
        return out


def extract_inputs(ex, model) -> dict:
    e = Extractor(ex, model)
    out = {}
    for name, v in ex.param_values.items():
        try:
            out[name] = e.value(v)
        except Exception as err:  # extraction is best effort; replay validates
            out[name] = None
    return out
