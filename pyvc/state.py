"""Symbolic state, outcomes, obligations, exception lattice."""
from __future__ import annotations

from dataclasses import dataclass, field
from typing import Any, Optional

import z3

from .values import V

# CPython class lattice for the exceptions the engine models (child -> parent)
EXC_PARENT = {
    "BaseException": None,
    "Exception": "BaseException",
    "ValueError": "Exception",
    "UnicodeError": "ValueError",
    "UnicodeDecodeError": "UnicodeError",
    "UnicodeEncodeError": "UnicodeError",
    "struct.error": "Exception",
    "LookupError": "Exception",
    "IndexError": "LookupError",
    "KeyError": "LookupError",
    "TypeError": "Exception",
    "AttributeError": "Exception",
    "ArithmeticError": "Exception",
    "ZeroDivisionError": "ArithmeticError",
    "OverflowError": "ArithmeticError",
    "AssertionError": "Exception",
    "StopIteration": "Exception",
    "OSError": "Exception",
    "ConnectionError": "OSError",
    "RuntimeError": "Exception",
    "NotImplementedError": "RuntimeError",
    "asyncio.CancelledError": "BaseException",
}


def exc_is_subclass(child: str, parent: str, extra: Optional[dict] = None) -> bool:
    table = dict(EXC_PARENT)
    if extra:
        table.update(extra)
    if child == "error":
        child = "struct.error"
    if parent == "error":
        parent = "struct.error"
    cur = child
    seen = set()
    while cur is not None and cur not in seen:
        if cur == parent:
            return True
        seen.add(cur)
        cur = table.get(cur)
    return False


@dataclass
class Obligation:
    unit: str            # contract / lemma / harness this VC was generated for
    clause: str          # ledger key within the unit: raises | ensures[k] | loop[j].invariant ...
    site: str            # human-readable site (normalised source text)
    hyps: list
    goal: Any
    line: int = 0
    exc: Optional[str] = None
    state: Any = None    # State at the obligation (for counter-model extraction)
    note: str = ""

    @property
    def oid(self) -> str:
        return f"{self.unit}::{self.clause}::{self.site}"


class State:
    __slots__ = ("pc", "frames", "heap", "alloc", "guards", "trace", "ghost_log", "dead", "defs")

    def __init__(self):
        self.pc: list = []
        self.frames: list[dict[str, V]] = [{}]
        self.heap: dict[str, Any] = {}
        self.alloc = None
        self.guards: list = []
        self.trace: list[str] = []
        self.ghost_log: list = []
        self.dead = False
        self.defs: set = set()   # ids of definitional pc entries (fresh-constant definitions)

    def define(self, fact):
        """Definition of a fresh constant: sound to assert unconditionally (conservative extension)."""
        self.pc.append(fact)
        self.defs.add(fact.get_id())

    def become(self, other: "State"):
        for name in self.__slots__:
            setattr(self, name, getattr(other, name))

    def copy(self) -> "State":
        s = State()
        s.pc = list(self.pc)
        s.frames = [dict(f) for f in self.frames]
        s.heap = dict(self.heap)
        s.alloc = self.alloc
        s.guards = list(self.guards)
        s.trace = list(self.trace)
        s.ghost_log = list(self.ghost_log)
        s.dead = self.dead
        s.defs = set(self.defs)
        return s

    @property
    def locals(self) -> dict[str, V]:
        return self.frames[-1]

    def assume(self, fact):
        if self.guards:
            fact = z3.Implies(z3.And(*self.guards), fact)
        self.pc.append(fact)

    def hyps(self) -> list:
        return self.pc + self.guards


@dataclass
class Outcome:
    kind: str            # next | return | raise | break | continue
    st: State
    value: Any = None    # V for return; exception class name for raise
    site: str = ""
    line: int = 0
