"""Symbolic values: a static type plus a z3 term (or a python tuple of values)."""
from __future__ import annotations

import itertools
from dataclasses import dataclass
from typing import Any

import z3

from .prelude import prelude, Int, Bool, Real
from .ptypes import *  # noqa


class Unsupported(Exception):
    """Construct outside the verified subset (DESIGN 2.3): never a verdict."""


@dataclass(frozen=True)
class TPy(Type):
    """Engine-level python object: function/class/module reference, range, bound method..."""
    kind: str = "py"


@dataclass
class V:
    t: Type
    z: Any

    def __repr__(self):
        return f"V({self.t}, {self.z})"


_counter = itertools.count()


def fresh_name(base: str) -> str:
    return f"{base}!{next(_counter)}"


def sort_of(t: Type) -> z3.SortRef:
    P = prelude()
    if isinstance(t, TInt):
        return Int
    if isinstance(t, TBool):
        return Bool
    if isinstance(t, TReal):
        return Real
    if isinstance(t, TBytes):
        return P.Bytes.S
    if isinstance(t, TStr):
        return P.Str
    if isinstance(t, (TObj, TList, TDict, TSet, TOpaque)):
        return P.Ref
    if isinstance(t, TEnum):
        return Int
    if isinstance(t, TNone):
        return Bool  # unit-like; value irrelevant
    if isinstance(t, TOpt):
        if is_ref_type(t.inner):
            return P.Ref
        return P.opt_of(sort_of(t.inner))
    if isinstance(t, TTuple):
        return P.tuple_of([sort_of(e) for e in t.elts])
    if isinstance(t, TSeq):
        return seq_theory(t.elt).S
    raise Unsupported(f"no sort for type {t}")


def seq_theory(elt: Type):
    P = prelude()
    if isinstance(elt, TInt):
        return P.seq_of(Int)
    return P.seq_of(sort_of(elt))


def theory_of(t: Type):
    """Sequence theory for a sequence-like type (bytes, seq, list content)."""
    if isinstance(t, TBytes):
        return prelude().Bytes
    if isinstance(t, (TSeq, TList)):
        return seq_theory(t.elt)
    raise Unsupported(f"not a sequence type: {t}")


def box(v: V) -> z3.ExprRef:
    """Single z3 term of sort_of(v.t)."""
    t = v.t
    if isinstance(t, TTuple):
        dt = sort_of(t)
        return dt.mk(*[box(e) for e in v.z])
    if isinstance(t, TNone):
        return z3.BoolVal(True)
    return v.z


def unbox(term: z3.ExprRef, t: Type) -> V:
    if isinstance(t, TTuple):
        dt = sort_of(t)
        return V(t, tuple(unbox(dt.accessor(0, i)(term), e) for i, e in enumerate(t.elts)))
    if isinstance(t, TNone):
        return V(t, None)
    return V(t, term)


def fresh(t: Type, base: str = "v") -> V:
    if isinstance(t, TTuple):
        return V(t, tuple(fresh(e, base) for e in t.elts))
    if isinstance(t, TNone):
        return V(t, None)
    return V(t, z3.Const(fresh_name(base), sort_of(t)))


def none_of(t: TOpt) -> V:
    P = prelude()
    if is_ref_type(t.inner):
        return V(t, P.null)
    return V(t, sort_of(t).none)


def some_of(v: V) -> V:
    t = TOpt(v.t)
    if is_ref_type(v.t):
        return V(t, v.z)
    return V(t, sort_of(t).some(box(v)))


def opt_is_none(v: V) -> z3.BoolRef:
    assert isinstance(v.t, TOpt)
    P = prelude()
    if is_ref_type(v.t.inner):
        return v.z == P.null
    return sort_of(v.t).is_none(v.z)


def opt_get(v: V) -> V:
    assert isinstance(v.t, TOpt)
    if is_ref_type(v.t.inner):
        r = V(v.t.inner, v.z)
        if getattr(v, "_snap", None) is not None:
            r._snap = v._snap      # old(container): keep reading the pre-state content
        return r
    return unbox(sort_of(v.t).val(v.z), v.t.inner)


def coerce(v: V, t: Type) -> V:
    """Convert v to static type t (total on the pairs the subset needs)."""
    if v.t == t:
        return v
    if isinstance(t, TOpaque):
        if is_ref_type(v.t) or (isinstance(v.t, TOpt) and is_ref_type(v.t.inner)):
            return V(t, v.z)
        return fresh(t, "opaque")
    if isinstance(v.t, TOpaque):
        if is_ref_type(t) or (isinstance(t, TOpt) and is_ref_type(t.inner)):
            return V(t, v.z)
        return fresh(t, "fromopaque")
    if isinstance(t, TOpt):
        if isinstance(v.t, TNone):
            return none_of(t)
        if isinstance(v.t, TOpt):
            if is_ref_type(t.inner) and is_ref_type(v.t.inner):
                return V(t, v.z)
            # opt[int] -> opt[float] etc.
            inner = coerce(opt_get(v), t.inner)
            return V(t, z3.If(opt_is_none(v), none_of(t).z, some_of(inner).z))
        return some_of(coerce(v, t.inner))
    if isinstance(t, TInt) and isinstance(v.t, TBool):
        return V(t, z3.If(v.z, z3.IntVal(1), z3.IntVal(0)))
    if isinstance(t, TInt) and isinstance(v.t, TEnum):
        return V(t, v.z)
    if isinstance(t, TReal) and isinstance(v.t, TInt):
        return V(t, z3.ToReal(v.z))
    if isinstance(t, TReal) and isinstance(v.t, TBool):
        return V(t, z3.If(v.z, z3.RealVal(1), z3.RealVal(0)))
    if isinstance(t, TTuple) and isinstance(v.t, TTuple) and len(t.elts) == len(v.t.elts):
        return V(t, tuple(coerce(e, te) for e, te in zip(v.z, t.elts)))
    if isinstance(t, TSeq) and isinstance(v.t, TSeq) and sort_of(t) == sort_of(v.t):
        return V(t, v.z)
    if isinstance(t, TObj) and isinstance(v.t, TObj):
        return V(t, v.z)  # up/down cast; class facts are in typeof
    if isinstance(t, (TList, TDict, TSet)) and isinstance(v.t, type(t)):
        return V(t, v.z)
    raise Unsupported(f"cannot coerce {v.t} to {t}")


def join_types(a: Type, b: Type) -> Type:
    if a == b:
        return a
    if isinstance(a, TNone) and isinstance(b, TNone):
        return a
    if isinstance(a, TNone):
        return b if isinstance(b, TOpt) else TOpt(b)
    if isinstance(b, TNone):
        return a if isinstance(a, TOpt) else TOpt(a)
    if isinstance(a, TOpt) and isinstance(b, TOpt):
        return TOpt(join_types(a.inner, b.inner))
    if isinstance(a, TOpt):
        return TOpt(join_types(a.inner, b))
    if isinstance(b, TOpt):
        return TOpt(join_types(a, b.inner))
    if isinstance(a, TBool) and isinstance(b, TInt) or isinstance(a, TInt) and isinstance(b, TBool):
        return INT
    if isinstance(a, (TInt, TBool)) and isinstance(b, TReal) or isinstance(a, TReal) and isinstance(b, (TInt, TBool)):
        return REAL
    if isinstance(a, TTuple) and isinstance(b, TTuple) and len(a.elts) == len(b.elts):
        return TTuple(tuple(join_types(x, y) for x, y in zip(a.elts, b.elts)))
    if isinstance(a, TObj) and isinstance(b, TObj):
        return a  # caller is responsible for class compatibility
    if isinstance(a, TOpaque) and is_ref_type(b):
        return a
    if isinstance(b, TOpaque) and is_ref_type(a):
        return b
    raise Unsupported(f"cannot join types {a} and {b}")


def ite(c: z3.BoolRef, a: V, b: V) -> V:
    t = join_types(a.t, b.t)
    a, b = coerce(a, t), coerce(b, t)
    if isinstance(t, TTuple):
        return V(t, tuple(ite(c, x, y) for x, y in zip(a.z, b.z)))
    if isinstance(t, TNone):
        return a
    if isinstance(t, TPy):
        if a.z is b.z or a.z == b.z:
            return a
        raise Unsupported("cannot merge distinct python-level objects")
    return V(t, z3.If(c, a.z, b.z))


def is_simple(term) -> bool:
    return z3.is_const(term) or z3.is_int_value(term) or z3.is_rational_value(term) or z3.is_true(term) or z3.is_false(term)
