"""Static types of symbolic values and the little type DSL used by sidecar contracts."""
from __future__ import annotations

from dataclasses import dataclass
from typing import Any, Optional


class Type:
    pass


@dataclass(frozen=True)
class TInt(Type):
    def __str__(self): return "int"


@dataclass(frozen=True)
class TBool(Type):
    def __str__(self): return "bool"


@dataclass(frozen=True)
class TReal(Type):
    def __str__(self): return "float"


@dataclass(frozen=True)
class TNone(Type):
    def __str__(self): return "none"


@dataclass(frozen=True)
class TBytes(Type):
    def __str__(self): return "bytes"


@dataclass(frozen=True)
class TStr(Type):
    def __str__(self): return "str"


@dataclass(frozen=True)
class TTuple(Type):
    elts: tuple

    def __str__(self): return "tuple[" + ",".join(map(str, self.elts)) + "]"


@dataclass(frozen=True)
class TSeq(Type):
    """Immutable value sequence (tuple of unknown length, snapshot of a list)."""
    elt: Type

    def __str__(self): return f"seq[{self.elt}]"


@dataclass(frozen=True)
class TList(Type):
    """Mutable list / deque: a heap reference whose content is a Seq."""
    elt: Type

    def __str__(self): return f"list[{self.elt}]"


@dataclass(frozen=True)
class TDict(Type):
    key: Type
    val: Type

    def __str__(self): return f"dict[{self.key},{self.val}]"


@dataclass(frozen=True)
class TSet(Type):
    elt: Type

    def __str__(self): return f"set[{self.elt}]"


@dataclass(frozen=True)
class TObj(Type):
    cls: str  # class name (unique within the class table)

    def __str__(self): return self.cls


@dataclass(frozen=True)
class TEnum(Type):
    cls: str

    def __str__(self): return "enum:" + self.cls


@dataclass(frozen=True)
class TOpt(Type):
    inner: Type

    def __str__(self): return f"opt[{self.inner}]"


@dataclass(frozen=True)
class TOpaque(Type):
    """A value the engine does not look into (timer handles, loggers, tasks...)."""
    name: str = "any"

    def __str__(self): return "any"


INT, BOOL, REAL, NONE, BYTES, STR = TInt(), TBool(), TReal(), TNone(), TBytes(), TStr()
ANY = TOpaque()


def is_ref_type(t: Type) -> bool:
    return isinstance(t, (TList, TDict, TSet, TObj, TOpaque))


def parse_type(text: str, classes: Optional[dict] = None) -> Type:
    text = text.strip()
    toks = _tokenize(text)
    t, rest = _parse(toks, classes)
    if rest:
        raise ValueError(f"trailing tokens in type {text!r}: {rest}")
    return t


def _tokenize(text):
    out, cur = [], ""
    for ch in text:
        if ch in "[],":
            if cur.strip():
                out.append(cur.strip())
            out.append(ch)
            cur = ""
        else:
            cur += ch
    if cur.strip():
        out.append(cur.strip())
    return out


_SIMPLE = {"int": INT, "bool": BOOL, "float": REAL, "real": REAL, "none": NONE, "None": NONE,
           "bytes": BYTES, "str": STR, "any": ANY, "Any": ANY}


def _parse(toks, classes):
    head, toks = toks[0], toks[1:]
    args = []
    if toks and toks[0] == "[":
        toks = toks[1:]
        while True:
            a, toks = _parse(toks, classes)
            args.append(a)
            if toks[0] == ",":
                toks = toks[1:]
                continue
            if toks[0] == "]":
                toks = toks[1:]
                break
            raise ValueError("bad type syntax")
    h = head
    if h in _SIMPLE and not args:
        return _SIMPLE[h], toks
    if h in ("list", "deque", "List"):
        return TList(args[0]), toks
    if h in ("seq",):
        return TSeq(args[0]), toks
    if h in ("tuple", "Tuple"):
        return TTuple(tuple(args)), toks
    if h in ("opt", "Optional"):
        return TOpt(args[0]), toks
    if h in ("dict", "Dict"):
        return TDict(args[0], args[1]), toks
    if h in ("set", "Set"):
        return TSet(args[0]), toks
    if h.startswith("enum:"):
        return TEnum(h[5:]), toks
    if classes is not None and h in classes and getattr(classes[h], "is_enum", False):
        return TEnum(h), toks
    return TObj(h), toks
