"""Developer driver: verify units by name and print obligations."""
import os, sys, time
sys.path.insert(0, os.path.dirname(os.path.dirname(os.path.abspath(__file__))))
from pyvc.frontend import Repo
from pyvc.contracts import load_sidecars
from pyvc.engine import Exec
from pyvc import solve
import z3

def run(unit_names, verbose=True):
    repo = Repo()
    reg = load_sidecars(os.path.join(os.path.dirname(os.path.dirname(os.path.abspath(__file__))), "contracts"))
    for name in unit_names:
        ex = Exec(repo, reg, name)
        t0 = time.time()
        if name in reg.lemmas:
            ex.verify_lemma(reg.lemmas[name])
        elif name in reg.harnesses:
            ex.verify_harness(reg.harnesses[name])
        else:
            from pyvc.contracts import split_unit
            base = split_unit(name)[0]
            mi, ci, fn = repo.find_function(base)
            ex.verify_function(base, reg.contracts[base], mi, ci, fn)
        t1 = time.time()
        ok = 0
        for ob in ex.obligations:
            r = solve.check(ob.hyps, ob.goal, extra=ex.global_facts, want_model=False)
            if r.status == "unsat":
                ok += 1
            if verbose or r.status != "unsat":
                print(f"  [{r.status:7s} {r.backend} {r.time:.2f}s] {ob.clause} :: {ob.site} (line {ob.line}) {ob.note[:80]}")
        print(f"{name}: {ok}/{len(ex.obligations)} discharged, trivial={ex.trivial}, gen {t1-t0:.2f}s, assumptions={ex.assumptions}")

if __name__ == "__main__":
    run(sys.argv[1:])
