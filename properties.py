"""Per-property metadata: what is claimed (MANIFEST via tools/gen_manifest.py), what is not decided,
trusted base (evidence writer)."""
A_ENGINE = "A-ENGINE: VC generator, prelude axioms and contract translation are trusted (pyvc)"
A_PYSEM = "A-PYSEM: Python semantics as encoded in DESIGN 2.3 (ints mathematical, listed exception classes only)"
COMMON = [A_ENGINE, A_PYSEM, "z3 5.1 (E-matching, no MBQI) / cvc5 1.0.3 as back ends",
          "struct.pack/unpack, bytes slicing and int.to_bytes/from_bytes are modelled by prelude axioms, not verified"]

NOTES = ("Contract-based deductive verification (pyvc). Every claimed check is a set of function contracts on the "
         "real functions of /repo, re-extracted from the working tree on every run; see DESIGN.md section 0 for the "
         "decision table and section 9 for what was actually built versus planned. Exit codes: 0 held, 1 VIOLATION, "
         "2 UNDECIDED (a unit left the supported subset or an obligation is neither discharged nor refuted), "
         "3 checker defect.")

PROPERTIES = {
    "C01": {
        "claim": "Proof for the receive-side reassembly queue (InboundStream) and the DATA chunk codec: DataChunk serialise/"
                 "parse round trip on every field and payload length; add_chunk inserts the chunk at one position between a "
                 "predecessor that is not serially later and a successor that is (32-bit serial order), moving nothing else; "
                 "prune_chunks removes exactly the maximal prefix at or before the given TSN; pop_messages, at the head of the "
                 "queue: an ordered message whose stream sequence number is serially ahead of the expected one is held back with "
                 "everything behind it (all 16-bit pairs, also across the wrap), an ordered stream whose head is not a first "
                 "fragment delivers nothing, a complete single-fragment message that is due is delivered first with exactly its "
                 "stream id, protocol and payload; it terminates and raises nothing; an incoming stream reset "
                 "(_receive_reconfig_param, StreamResetOutgoingParam) drops the reassembly state of every listed stream and of "
                 "no other, so a re-used stream id is expected from sequence number 0 again; _mark_received reports exactly the "
                 "TSNs at or before the cumulative point or already held as duplicates (nothing else changes then), and "
                 "otherwise leaves the cumulative point fully consolidated - the TSN after it is not waiting in the "
                 "out-of-order set - wherever the 32-bit numbers wrap (F-13 found and fixed), keeps only TSNs serially after "
                 "the point, and adds none but the new one. Value and type: _data_channel_send queues exactly one message for the "
                 "channel - text as its UTF-8 bytes under payload protocol identifier 51, binary as is under 53, the empty "
                 "string / empty bytes as one zero byte under 56 / 57 - and _data_channel_receive emits, for each of these "
                 "identifiers, exactly one 'message' event on the channel registered under that stream, carrying the decoded "
                 "text (56: the empty string) or the bytes (57: empty bytes) - observed through a ghost log of the payload and "
                 "its type. Reduced: the general statement about every "
                 "yielded run (consecutive TSNs, B..E, concatenation), _mark_received, _receive_data_chunk, the send side and "
                 "the whole-history 'prefix of the sends' statement are not decided.",
        "note": "add_chunk assumes what its only caller establishes: no duplicate TSN in the queue (filtered by _mark_received) "
                "and live TSNs within half the number space of each other (A-WINDOW).",
        "design_ref": "DESIGN.md 4.1, 9",
        "trusted_base": COMMON,
        "assumptions": ["A-WINDOW: live TSNs lie within 2^31 of each other"],
        "not_decided": ["every yielded message is a consecutive-TSN run from a B chunk to the first E chunk (general O-5; F-12 open)",
                        "_receive_data_chunk", "termination of the consolidation loop of _mark_received (finite set; "
                        "decreases='unproved')", "_send fragmentation",
                        "induction over network histories (exactly once, prefix)"],
    },
    "C04": {
        "claim": "Proof for the two pieces of DTLS identity and key handling that are code of this repository: "
                 "RTCDtlsTransport._validate_peer_identity leaves the transport state untouched exactly when at least one "
                 "signalled fingerprint names a supported hash (sha-256/384/512, name compared case-insensitively) and every "
                 "fingerprint with a supported hash equals the digest of the peer's certificate (value compared "
                 "case-insensitively), and otherwise ends in FAILED; it raises nothing. RTCDtlsTransport._set_state stores the "
                 "state and emits 'statechange' only on a change (listeners see the new state). SRTPProtectionProfile."
                 "get_key_and_salt(src, idx) returns key idx followed by salt idx of the exported keying material laid out as "
                 "client key | server key | client salt | server salt, for either role index. Reduced: the handshake, the "
                 "certificate digest, key export and SRTP protect/unprotect are external C code (OpenSSL, cryptography, "
                 "libsrtp); that start() stops after FAILED and hands nothing over, which role uses which index in "
                 "_setup_srtp, and the refusal of _send_* unless CONNECTED are not under contract.",
        "note": "certificate_digest is an assumed contract (a function of certificate and algorithm, uf_str('digest', ...)); the "
                "certificate is whatever self._ssl.get_peer_certificate() returns (a read-only query of an external object, "
                "uf_any). In replays a fixed stand-in digest is used, since rebuilt transports carry no real certificate.",
        "design_ref": "DESIGN.md 4.4, 9",
        "trusted_base": COMMON + ["assumed contract: certificate_digest (cryptography/OpenSSL)",
                                  "pyOpenSSL Connection.get_peer_certificate() is a read-only query"],
        "not_decided": ["start(): FAILED after identity check means no CONNECTED, no data pump, no keys handed over",
                        "_setup_srtp: client writes with index 0 and reads with index 1, server the reverse (mirror-image keys)",
                        "_send_rtp/_send_data refuse unless CONNECTED; _recv_next drops packets failing SRTP authentication",
                        "everything inside OpenSSL / libsrtp"],
    },
    "C05": {
        "claim": "Proof, for the RTP/RTCP wire parsers under contract (rtp.py: unpack_remb_fci, unpack_header_extensions, "
                 "unpack_packets_lost, RtcpReceiverInfo.parse, RtcpSenderInfo.parse, RtcpPsfbPacket.parse, RtcpByePacket.parse, "
                 "is_rtcp, RtcpSdesPacket.parse, RtcpRtpfbPacket.parse (NACK), RtcpRrPacket.parse, RtcpSrPacket.parse, the compound "
                 "dispatcher RtcpPacket.parse, HeaderExtensionsMap.get (F-4 found and fixed: a fixed-size header extension of "
                 "the wrong length raised struct.error); rtcsctptransport.py: "
                 "parse_packet (every chunk class of the dispatch table, checksum gate), decode_params, the "
                 "DATA/SACK/FORWARD-TSN/INIT/SHUTDOWN/params chunk constructors, the three RFC 6525 "
                 "parameter parsers; codecs/vpx.py: VpxPayloadDescriptor.parse; codecs/h264.py: H264PayloadDescriptor.parse; "
                 "rtcrtpreceiver.py: NackGenerator.add), that for every byte string they return or "
                 "raise ValueError only (no struct.error/IndexError/TypeError) and every loop terminates (decreases "
                 "clauses); _receive_forward_tsn_chunk raises nothing. Reduced: RtpPacket.parse itself, the SCTP chunk dispatch "
                 "(_handle_data, _receive_chunk) and the transports are not under contract.",
        "note": "Only the listed parser functions are decided; the rest of the receive path (RtpPacket.parse, transports, "
                "_receive_chunk) is outside this check. parse_packet's "
                "call of a class from the chunk dispatch table is discharged modularly: every class in the table has a "
                "constructor contract whose only exceptional exit is ValueError. "
                "Trusted: pyvc engine and prelude axioms for struct/bytes.",
        "design_ref": "DESIGN.md 4.5, 9",
        "trusted_base": COMMON,
        "not_decided": ["RtpPacket.parse (its header-extension decoding, HeaderExtensionsMap.get, is decided)",
                        "_handle_data / _receive_chunk dispatch",
                        "memory/time proportionality beyond loop variants bounded by the input length", "transport stays up afterwards"],
    },
    "C06": {
        "claim": "Proof for the pieces of partial reliability that are single functions: RTCSctpTransport."
                 "_update_advanced_peer_ack_point pops exactly the abandoned prefix of the sent queue, builds a FORWARD-TSN only "
                 "if something was popped, with the TSN of the last popped chunk and, per ordered stream, the stream sequence "
                 "number of the *last* popped ordered chunk of that stream (not the numerically largest: they wrap), covering "
                 "every such stream; InboundStream.prune_chunks removes exactly the maximal prefix of chunks at or before the "
                 "forwarded TSN (32-bit serial order) and nothing else; ForwardTsnChunk parsing decodes the stream list exactly "
                 "and rejects bad lengths with ValueError; RTCSctpTransport._maybe_abandon answers yes for an already abandoned "
                 "chunk and no for one that is not due without touching anything, the retransmission limit decides by itself, "
                 "and a newly abandoned chunk marks (abandoned, not to be retransmitted) exactly the chunks of its message in "
                 "the sent queue - back to the first fragment and forward to the last - and no chunk of a neighbouring message. "
                 "RTCSctpTransport._receive_forward_tsn_chunk (receiver side) requests a SACK, ignores a FORWARD-TSN at or behind "
                 "the cumulative point, otherwise moves the point to at least the forwarded TSN and consolidates it across "
                 "the wrap, keeps only known out-of-order TSNs, and leaves every inbound stream well formed (the expected "
                 "stream sequence number of a named stream stays 16-bit: 65535 + 1 wraps to 0); raises nothing. "
                 "Reduced: fragments of the message still in the outbound queue (F-15), which messages the receiver delivers "
                 "after a FORWARD-TSN, the expiry time itself in "
                 "_data_channel_flush, flight-size accounting and every schedule-level statement are not decided.",
        "note": "Only the listed functions are decided; nothing is claimed about other channels being undisturbed across a "
                "whole exchange.",
        "design_ref": "DESIGN.md 4.6, 9",
        "trusted_base": COMMON + ["assumed contract: RTCSctpTransport._receive (delivery to the data-channel layer leaves TSN "
                                  "bookkeeping and inbound streams alone)"],
        "not_decided": ["_maybe_abandon does not reach unsent fragments in _outbound_queue (F-15, open, outside every contract)", "messages delivered / pruned after a FORWARD-TSN (only well-formedness is stated)", "_data_channel_flush expiry",
                        "flight-size accounting in _receive_sack_chunk (F-14)", "delivery resumes after recovery (liveness)"],
    },
    "C07": {
        "claim": "Proof of the fixed-layout RTCP building blocks: RtcpReceiverInfo and RtcpSenderInfo parse(bytes(x)) == x "
                 "for all in-range field values, 24-bit signed loss clamp/pack/unpack round trip and saturation, REMB "
                 "FCI encoder (mantissa = bitrate >> exponent with minimal exponent: never rounds up, relative error "
                 "< 2^-17) and decoder, pack_rtcp_packet header layout, payload-specific feedback (PSFB) serialise/parse round "
                 "trip on every field, BYE source list decoding, header-extension pack/unpack shape facts, SDES parsing (shape, "
                 "ValueError only), NACK parsing: every listed number is a 16-bit sequence number, every packet id is listed and "
                 "for the first and last mask bit the denoted number (pid + bit + 1 mod 2^16) is listed, at most 17 per entry. "
                 "HeaderExtensionsMap.set hands pack_header_extensions exactly one entry per value that is set and has a non-zero id "
                 "(nothing left out, nothing twice), ids in 1..255, each fixed-size extension with exactly the size "
                 "HeaderExtensionsMap.get accepts (3/3/1/2 bytes) and with the value in the encoding get decodes (u24, 24-bit two's "
                 "complement, V bit + level, u16); it raises at most ValueError for in-range values. "
                 "Reduced: RtpPacket/compound RtcpPacket serialise/parse, NACK serialisation and the 14 middle mask bits, RTX "
                 "are not under contract.",
        "note": "Round trip is proved as composition lemmas (harnesses) over the callee contracts; wire-range "
                "preconditions (fields fit their widths) are stated in requires. Whole-packet round trips are not decided.",
        "design_ref": "DESIGN.md 4.7, 9",
        "trusted_base": COMMON,
        "not_decided": ["RtpPacket.serialize/parse round trip", "RtcpPacket compound round trip", "NACK serialisation and full set equality (F-11 fixed in parse and __bytes__; only parse is under contract)",
                        "RTX wrap/unwrap", "HeaderExtensionsMap value round trip (set: entry count, ids, sizes, encoded values of the four fixed-size extensions and no-raise are decided, F-10 found and fixed; get's decoded values and the text extensions mid/rid are not compared end to end)"],
    },
    "C08": {
        "claim": "Proof of the SCTP chunk and parameter codecs function by function: DATA chunk serialise/parse layout and "
                 "the round trip DataChunk(parse(bytes(x))) == x on every field for all in-range values and all user-data "
                 "lengths (all four padding cases); SACK, FORWARD-TSN, SHUTDOWN, INIT constructors decode exactly the "
                 "RFC 4960/3758 field layout (gap and duplicate lists element by element) and reject truncated bodies with "
                 "ValueError under an exact stated condition; decode_params terminates and RFC 6525 parameter parsers decode "
                 "exactly; parse_packet returns the ports and tag of the common header and hands no chunk on unless the little-endian "
                 "checksum field equals crc32c of the packet with that field zeroed (crc32c uninterpreted), rejects bad chunk "
                 "lengths with ValueError and terminates. Reduced: serialize_packet, the whole-packet round trip and the CRC-32c "
                 "burst claim are not under contract.",
        "note": "crc32c is an external C function (uninterpreted); which key of the chunk dispatch table maps to which class is "
                "not modelled, so whole-packet round trip and byte-identical re-serialisation of SACK/INIT/param chunks are NOT "
                "decided; that a burst of <= 32 flipped bits changes the CRC verdict is a property of CRC-32c, not decided. "
                "Chunk.__bytes__ (generic header + padding) and encode_params are proved for shape only.",
        "design_ref": "DESIGN.md 4.8, 9",
        "trusted_base": COMMON,
        "not_decided": ["serialize_packet and parse(serialize(x)) == x", "single-burst checksum claim (property of CRC-32c itself)",
                        "encode_params/decode_params value round trip", "SackChunk.__bytes__ / body properties of Init, ForwardTsn"],
    },
    "C10": {
        "claim": "Proof, for each ring capacity 1, 2, 4, ..., 256 (everything else symbolic: any sequence numbers incl. "
                 "wraparound, timestamps, prefetch, payloads, audio/video), that JitterBuffer.__init__/add/_remove_frame/remove/"
                 "smart_remove establish and preserve the ring invariant (slot p holds only a packet with seq % capacity == p "
                 "inside the window [_origin, _origin+capacity): at most `capacity` packets are ever held), never raise, and: "
                 "_remove_frame releases exactly the n >= 1 packets at the front of the ring, which have consecutive sequence "
                 "numbers, one common timestamp equal to the frame's, data = their payloads concatenated in order, the next held "
                 "packet starting a different timestamp; remove/smart_remove clear exactly the stated slots; add drops a packet "
                 "1..99 positions late without any change, only ever holds the new packet or packets held before, a video buffer "
                 "that discards a held packet without releasing it returns pli=True, the origin only moves forward unless the "
                 "100-late reset fires, and a released frame is made of the new packet and packets held at entry (composition "
                 "clause). Reduced: the statement over whole arrival histories (every frame released exactly once) is not decided.",
        "note": "Capacities are verified per concrete power of two because `% capacity` is non-linear for a symbolic "
                "capacity; the class invariant pins self._capacity == CAP. add()'s composition clause is stated for every "
                "path except the overflow eviction (smart_remove) path, where the frame's integrity rests on _remove_frame's "
                "contract and the ring invariant. RtpPacket._data is the attribute RTCRtpReceiver attaches before add().",
        "design_ref": "DESIGN.md 4.10, 9",
        "trusted_base": COMMON,
        "not_decided": ["release completeness over arrival histories ('every frame except the trailing prefetch window is "
                        "released exactly once')", "no packet in two frames / increasing frame order across calls (follows "
                        "from the per-call contracts by induction over calls; the induction is not mechanised)",
                        "composition clause of add() on the overflow-eviction path", "capacities other than 1..256 powers of two"],
    },
    "C11": {
        "claim": "Proof for NackGenerator (the receiver's loss detector) under a class invariant established by __init__ and "
                 "preserved by add/truncate: every tracked sequence number lies 1..128 positions behind the highest one seen, "
                 "in 16-bit serial arithmetic (so a NACK never exceeds the 128-packet retransmission history); add() returns "
                 "whether the packet revealed a gap, never requests a packet that was received, and leaves exactly: what was "
                 "missing before plus the numbers skipped by a forward jump, minus the packet itself, restricted to the history "
                 "window; truncate() drops exactly the numbers more than 128 behind; both terminate and raise nothing for any "
                 "16-bit sequence number, including across the wrap. Reduced: the closed loop (request, retransmission, "
                 "delivery) and the decoder path are not decided; frame integrity in the jitter buffer is C10's check.",
        "note": "|missing| <= 128 follows from the invariant by the pigeonhole principle (the map s -> (max_seq - s) % 65536 is "
                "injective into 1..128); that cardinality step is not mechanised. RTCRtpSender._retransmit and the RTX path "
                "are not under contract.",
        "design_ref": "DESIGN.md 4.11, 9",
        "trusted_base": COMMON,
        "not_decided": ["eventual recovery of every lost packet (liveness)", "RTCRtpSender._retransmit / RTX wrapping",
                        "cardinality step |missing| <= 128 from the invariant", "decoder thread hand-off"],
    },
    "C12": {
        "claim": "Proof for RtpRouter under a class invariant established by __init__ and preserved by every method (every "
                 "receiver named by the SSRC table, a payload-type set or the MID table is currently registered; table values "
                 "are never None): route_rtp returns the receiver registered for the packet's SSRC iff it accepts the payload "
                 "type, else for an unknown SSRC the only receiver accepting the payload type and latches that SSRC to it, else "
                 "None with no change, and whatever it returns is a registered receiver; route_rtcp (verified once per RTCP packet "
                 "class) returns exactly the receiver of an SR's SSRC and the senders of the SSRCs reported on (SR/RR), the "
                 "receivers of a BYE's sources, the sender of a feedback packet's media SSRC, and for REMB the senders of every "
                 "SSRC listed in a well-formed FCI, never None, never raising; unregister_receiver/unregister_sender remove "
                 "every mention of the object and change nothing else; register_* add exactly the stated entries. Because the "
                 "invariant and these contracts are pre/postconditions of every operation they hold for every interleaving of "
                 "registrations, unregistrations and packets.",
        "note": "Receivers/senders are opaque references compared by identity; MID strings are modelled as opaque ids (used only "
                "as dictionary keys). For PSFB packets the 'only these recipients' direction is not stated (the 'at least "
                "these' direction and non-None are); the dispatch in RTCDtlsTransport._handle_rtp_data/_handle_rtcp_data that "
                "calls the router is not under contract.",
        "design_ref": "DESIGN.md 4.12, 9",
        "trusted_base": COMMON,
        "not_decided": ["RTCDtlsTransport._handle_rtp_data/_handle_rtcp_data (callers of the router)",
                        "upper bound on the recipients of PSFB/REMB packets"],
    },
    "C13": {
        "claim": "Proof for the channel-side bookkeeping of RTCDataChannel and the DCEP / stream-reset steps of RTCSctpTransport that "
                 "touch it. _addBufferedAmount changes bufferedAmount by exactly the given amount and emits 'bufferedamountlow' "
                 "exactly when the amount goes from above the threshold to at or below it (events observed through a ghost log of "
                 "emit() calls); _setReadyState stores the state and emits 'open' / 'close' exactly on a change into that state, at "
                 "most one event per call; for both, the state a listener observes inside emit() is already the final one and "
                 "nothing is written after the emit (at_emit / after_emit obligations: the re-entrancy discipline that makes a "
                 "send() from a bufferedamountlow listener safe). _data_channel_open registers a channel that already has an id "
                 "(ValueError exactly if the id is taken) and queues exactly one DATA_CHANNEL_OPEN whose bytes are the RFC 8832 "
                 "layout of the channel's ordering, reliability mode and parameter, and the UTF-8 label and protocol with their "
                 "byte lengths, for any Unicode label and protocol. _data_channel_receive, for a well-formed DATA_CHANNEL_OPEN on "
                 "an unused stream, registers a new channel with that id whose label, protocol, ordering and reliability settings "
                 "are exactly the ones on the wire, in state 'open', whose first event is 'open'; for a DATA_CHANNEL_ACK it opens a "
                 "channel that is still connecting and leaves any other state alone - readyState never moves backwards (F-25 found "
                 "and fixed: an ACK after close() reopened the channel) - and adds no channel; RTCDataChannel.__init__ (remote "
                 "open) starts 'connecting' with zero amounts and no event. _data_channel_flush keeps every registered channel "
                 "registered, keeps the table 'id -> the channel carrying that id', numbers channels without an id with ids of "
                 "this end's parity that are not in use, only appends to event logs, and hands every message to the SCTP layer "
                 "on the channel's own stream - DCEP messages reliable and ordered, user messages with the channel's ordering and "
                 "retransmission limit and with a lifetime exactly when the channel has one (obligations at the call of _send). "
                 "Stream reset: _transmit_reconfig makes a request from "
                 "the first 135 queued streams exactly when none is outstanding; _data_channel_closed unregisters the id and "
                 "closes the channel; _receive_reconfig_param, for a response that matches the outstanding request, closes and "
                 "unregisters that request's streams, retires the request, and - progress - leaves a new outstanding request "
                 "covering the streams still queued, so a close() issued while an earlier reset is in flight is not stranded. "
                 "RTCSctpTransport._set_state: when the association is established every negotiated channel is open and the others "
                 "are as they were; when it is closed every registered channel is closed and unregistered; other states leave "
                 "the channels alone. _data_channel_add_negotiated registers a negotiated channel under its id (ValueError exactly "
                 "if the id is taken) and opens it at once exactly when the association is established. "
                 "_data_channel_send adds exactly the queued byte count to bufferedAmount (flush takes the "
                 "same count off). Reduced: id reuse after close, the accounting over whole histories of "
                 "send/flush, and close() end to end over both peers are not under contract.",
        "note": "emit() is modelled as appending the event name to a ghost list; the event-log postconditions assume listeners "
                "do not re-enter, while the at_emit/after_emit obligations are exactly what makes re-entry harmless. "
                "_send and _send_reconfig_param are assumed contracts (trusted; listed in the evidence): handing a message or a "
                "RE-CONFIG chunk to the SCTP layer changes no data-channel or reset bookkeeping and raises nothing. Termination "
                "of the two loops of _data_channel_flush is not proved (decreases='unproved'). _receive_reconfig_param assumes (precondition, not proved at the callers) that the streams of the "
                "outstanding request are registered channels; a stream listed twice makes it raise KeyError, which the contract "
                "allows. F-16 (DCEP label length counted in characters) was found by _data_channel_open's layout clause and "
                "fixed. str.encode/bytes.decode('utf8') are axiomatised total/partial functions (A-EXT).",
        "design_ref": "DESIGN.md 4.13, 9",
        "trusted_base": COMMON + ["pyee emit(): listeners do not re-enter (event-log clauses only)",
                                  "assumed contracts: RTCSctpTransport._send, RTCSctpTransport._send_reconfig_param"],
        "not_decided": ["id reuse after close; termination of _data_channel_flush's loops", "that the table never holds a closed channel and that a negotiated "
                        "channel is not closing before establishment (preconditions of _set_state, not proved at its callers)", "bufferedAmount accounting across _data_channel_send and _data_channel_flush",
                        "incoming stream reset (StreamResetOutgoingParam branch) and _data_channel_close",
                        "close() end to end across both peers"],
    },
    "C14": {
        "claim": "Proof for RTCPeerConnection.__validate_description, the gate every setLocalDescription/setRemoteDescription "
                 "call passes before anything is written: it raises InvalidStateError exactly when (side, type) is illegal in the "
                 "current signalling state per the JSEP table (local offer: stable/have-local-offer; remote offer: "
                 "stable/have-remote-offer; local (pr)answer: have-remote-offer; remote (pr)answer: have-local-offer; nothing in "
                 "closed); on normal return every media section carries ICE ufrag and password, an answer has a definite DTLS "
                 "role (client/server) in every section, audio/video sections use rtcp-mux, and an answer's sections mirror the "
                 "pending offer's (count, order, kind, mid); it raises nothing but InvalidStateError/ValueError and writes "
                 "nothing. Reduced: the state updates in setLocalDescription/setRemoteDescription/close and 'closed is absorbing' "
                 "over call sequences are not under contract.",
        "note": "Class invariant assumed for the peer connection: signalling state is one of stable/have-local-offer/"
                "have-remote-offer/closed and a pending offer exists in the matching have-*-offer state (established by the "
                "state-changing methods, which are not under contract here). Two genuine defects were found and fixed "
                "(known_findings.json F-22, F-23).",
        "design_ref": "DESIGN.md 4.14, 9",
        "trusted_base": COMMON,
        "not_decided": ["setLocalDescription / setRemoteDescription / createOffer / createAnswer / close state updates",
                        "closed is absorbing over arbitrary call sequences", "RTCSessionDescription.__post_init__"],
    },
    "C15": {
        "claim": "Proof (floats as reals) for AimdRateControl under a class invariant (current_bitrate >= 0, variance in "
                 "[0.4, 2.5], near_max implies a recorded change time): update() never raises for any usage signal, any "
                 "non-negative throughput and non-decreasing times; a reported estimate is the stored non-negative integer and is "
                 "at most max(1.5 x throughput + 10000, previous estimate[, throughput]); on detected over-use it is at most "
                 "0.85 x the measured throughput (rounded); _clamp_bitrate, the additive/multiplicative increases and the "
                 "max-throughput estimator keep the invariant; plus REMB encodability: every integer bitrate in [0, 2^64) with up "
                 "to 255 SSRCs is encoded by pack_remb_fci with mantissa*2^exp <= bitrate and decodes to the listed SSRCs. "
                 "Reduced: the delay-based detector (InterArrival, OveruseEstimator, OveruseDetector), RateCounter's window and "
                 "RemoteBitrateEstimator.add are not under contract.",
        "note": "Floating point is treated as real arithmetic (A-REAL): rounding, overflow, inf/nan are outside the model. "
                "pow() is an uninterpreted function with positivity/monotonicity axioms. F-18 (ZeroDivisionError at a zero "
                "estimate) was found by the no-raise obligation of _near_max_rate_increase and fixed.",
        "design_ref": "DESIGN.md 4.15, 9",
        "trusted_base": COMMON + ["A-REAL: float arithmetic treated as exact real arithmetic"],
        "assumptions": ["A-REAL"],
        "not_decided": ["RateCounter: measurement over exactly the last 1000 ms", "RemoteBitrateEstimator.add / InterArrival / "
                        "OveruseEstimator / OveruseDetector never raise", "SSRC list of the estimate", "IEEE-754 effects"],
    },
    "C16": {
        "claim": "Proof for H.264 FU-A fragmentation (H264Encoder._packetize_fu_a, any NAL unit longer than 1300 bytes): the "
                 "number of fragments is ceil(payload/1298), every RTP payload is 3..1300 bytes, each carries the original F/NRI "
                 "bits with type 28 and the original NAL type, exactly the first has the start marker and exactly the last the "
                 "end marker, and fragment j is the slice of the NAL payload from the closed-form offset start(j) to start(j+1) "
                 "with start(0) = 1 and start(n) = len: consecutive, in order, covering everything; the loop terminates and the "
                 "final assert holds. H264PayloadDescriptor.parse raises only ValueError, terminates, never rejects a single-NAL or "
                 "FU-A packet of >= 2 bytes, returns start code + NAL for single NAL units (types 1..23), and for FU-A restores "
                 "start code + original header on the first fragment and passes the payload verbatim; composition harness: "
                 "parse(fragment j) yields exactly that fragment's slice (with start code and the original header byte for j = 0). "
                 "Proof for VP8: every payload is 1..1300 bytes, only the first packet carries the partition-start bit, the "
                 "descriptor parser decodes S/PID/picture id exactly and the picture id round-trips for all 15-bit values. "
                 "Reduced: STAP-A aggregation, _packetize's outer loop and _split_bitstream are not under contract; that "
                 "consecutive covering slices concatenate to the original is the remaining (not mechanised) step.",
        "note": "math.ceil(a / b) on integers is computed in exact integer arithmetic (float rounding ignored; exact below 2^53). "
                "pairwise() (itertools recipe used by the STAP-A branch of the parser) carries an assumed contract.",
        "design_ref": "DESIGN.md 4.16, 9",
        "trusted_base": COMMON + ["assumed contract: aiortc.codecs.h264:pairwise (itertools tee/zip recipe)"],
        "not_decided": ["H264Encoder._packetize_stap_a / _packetize / _split_bitstream", "STAP-A depayload content",
                        "concatenation of consecutive covering slices equals the original (stated, not mechanised)",
                        "VP8 payload concatenation == frame buffer"],
    },
    "C17": {
        "claim": "Proof that uint16/uint32 add, gt, gte implement RFC 1982 serial arithmetic, and lemmas over those "
                 "contracts: irreflexive, antisymmetric, total except at distance exactly half, consistent with modular "
                 "addition (a+d ahead of a for 0<d<half) and translation invariant (gt(a,b) == gt(a+k,b+k)) for all values.",
        "note": "The schedule-level statement ('delivers exactly the same under the same network schedule') is not "
                "decided; only the arithmetic it rests on.",
        "design_ref": "DESIGN.md 4.17",
        "trusted_base": COMMON,
        "assumptions": ["A-WINDOW: live values within half the number space of the tracked point"],
        "not_decided": ["the schedule-level statement 'delivers exactly the same under the same network schedule'"],
    },
    "C18": {
        "claim": "Proof over StreamStatistics with a class invariant established by __init__ and preserved by every method: "
                 "packets are counted exactly; base/highest sequence and wrap cycles follow RFC 3550 A.1 in serial order "
                 "(no 'away from the wrap' precondition); packets_lost == clamp24(extended highest - base + 1 - received); "
                 "fraction_lost is the A.3 formula over the interval and always fits 8 bits; jitter follows the A.8 "
                 "recurrence with differences modulo 2^32 and always fits 32 bits; plus the wire layer "
                 "(clamp/pack/unpack 24-bit loss, RtcpReceiverInfo.__bytes__ for all in-range figures), the receiver-report "
                 "packet (RtcpRrPacket serialise/parse/round trip for up to 31 reports), and the report loop "
                 "RTCRtpReceiver._run_rtcp: every report carries the stream's SSRC and cycles + max_seq as extended highest "
                 "sequence number, every field is in its wire range, and building and sending the report raises nothing "
                 "(cancellation at the sleep is the only exit).",
        "note": "_run_rtcp is verified under the stated receiver invariant (at most 31 remote streams, each with at least one "
                "packet and fewer than 65535 sequence wraps, LSR values 32-bit), which the RTP/RTCP handlers that establish it "
                "are not proved to maintain. The loop is a service loop: no variant. time.time() is an unconstrained real; "
                "random.random() is in [0, 1); asyncio.sleep may raise CancelledError. F-20 found here and fixed.",
        "design_ref": "DESIGN.md 4.18, 9",
        "trusted_base": COMMON,
        "not_decided": ["that _handle_rtp_packet/_handle_rtcp_packet maintain the receiver invariant _run_rtcp assumes",
                        "more than 31 remote streams in one receiver (the RR count field has 5 bits)"],
    },
}

_NOT_BUILT = ("not claimed: the function contracts planned for it in DESIGN.md section 4 were not built in the time "
              "available, so nothing decides it; no check is registered rather than a weaker technique substituted")
NOT_APPLICABLE = {
    "C02": "liveness over fault histories is not expressible as a function contract; the planned necessary-condition contracts (flight-size accounting, F-14) were not built",
    "C03": _NOT_BUILT + " (negotiation algebra); 'the session actually connects' is outside contracts (DESIGN 4.3)",
    "C09": "SDP parse/serialise is string/regex code; no contract within reach of the installed solvers decides the round trip (DESIGN 4.9)",
    "C19": "termination and absence of leftover tasks/threads across coroutine interleavings is not expressible as a function contract (DESIGN 4.19)",
}
