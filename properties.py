"""Per-property metadata used by the evidence writer (what is not decided, trusted base)."""
A_ENGINE = "A-ENGINE: VC generator, prelude axioms and contract translation are trusted (pyvc; self-tests in thorough tier)"
A_PYSEM = "A-PYSEM: Python semantics as encoded in DESIGN 2.3 (ints mathematical, listed exception classes only)"
COMMON = [A_ENGINE, A_PYSEM, "z3 5.1 (E-matching, no MBQI) / cvc5 1.0.3 as back ends"]

PROPERTIES = {
    "C17": {
        "trusted_base": COMMON,
        "assumptions": ["A-WINDOW: live values within half the number space of the tracked point"],
        "not_decided": ["the schedule-level statement 'delivers exactly the same under the same network schedule'"],
    },
}
