"""Per-property metadata: what is claimed (MANIFEST via tools/gen_manifest.py), what is not decided,
trusted base (evidence writer)."""
A_ENGINE = "A-ENGINE: VC generator, prelude axioms and contract translation are trusted (pyvc)"
A_PYSEM = "A-PYSEM: Python semantics as encoded in DESIGN 2.3 (ints mathematical, listed exception classes only)"
COMMON = [A_ENGINE, A_PYSEM, "z3 5.1 (E-matching, no MBQI) / cvc5 1.0.3 as back ends",
          "struct.pack/unpack, bytes slicing and int.to_bytes/from_bytes are modelled by prelude axioms, not verified"]

NOTES = ("Contract-based deductive verification (pyvc). Every claimed check is a set of function contracts on the "
         "real functions of /repo, re-extracted from the working tree on every run; see DESIGN.md section 0 for the "
         "decision table and section 9 for what was actually built versus planned. Exit codes: 0 held, 1 VIOLATION, "
         "2 UNDECIDED (a unit left the supported subset or an obligation is neither discharged nor refuted), "
         "3 checker defect.")

PROPERTIES = {
    "C05": {
        "claim": "Proof, for the RTP/RTCP wire parsers under contract (unpack_remb_fci, unpack_header_extensions, "
                 "unpack_packets_lost, RtcpReceiverInfo.parse, RtcpSenderInfo.parse, is_rtcp), that for every byte "
                 "string they return or raise ValueError only (no struct.error/IndexError) and every loop terminates "
                 "(decreases clauses). Reduced: the dispatch layer, SCTP, codec payload parsers are not under contract.",
        "note": "Only the listed parser functions are decided; the rest of the receive path (RtpPacket.parse, "
                "RtcpPacket.parse, SCTP chunk parsers, h264/vpx descriptors, transports) is outside this check. "
                "Trusted: pyvc engine and prelude axioms for struct/bytes.",
        "design_ref": "DESIGN.md 4.5, 9",
        "trusted_base": COMMON,
        "not_decided": ["RtpPacket.parse / RtcpPacket.parse dispatch", "SCTP chunk parsing", "codec payload descriptors",
                        "memory/time proportionality", "transport stays up afterwards"],
    },
    "C07": {
        "claim": "Proof of the fixed-layout RTCP building blocks: RtcpReceiverInfo and RtcpSenderInfo parse(bytes(x)) == x "
                 "for all in-range field values, 24-bit signed loss clamp/pack/unpack round trip and saturation, REMB "
                 "FCI encoder (mantissa = bitrate >> exponent with minimal exponent: never rounds up, relative error "
                 "< 2^-17) and decoder, pack_rtcp_packet header layout, header-extension pack/unpack shape facts. "
                 "Reduced: RtpPacket/compound RtcpPacket serialise/parse, NACK and RTX are not under contract.",
        "note": "Round trip is proved as composition lemmas (harnesses) over the callee contracts; wire-range "
                "preconditions (fields fit their widths) are stated in requires. Whole-packet round trips are not decided.",
        "design_ref": "DESIGN.md 4.7, 9",
        "trusted_base": COMMON,
        "not_decided": ["RtpPacket.serialize/parse round trip", "RtcpPacket compound round trip", "NACK set equality (F-11)",
                        "RTX wrap/unwrap", "HeaderExtensionsMap.get/set (F-4, F-10)"],
    },
    "C08": {"claim": "tbd", "note": "tbd", "trusted_base": COMMON},
    "C15": {
        "claim": "Proof that every integer bitrate in [0, 2^64) with up to 255 32-bit SSRCs is encodable by pack_remb_fci "
                 "and decodes to the listed SSRCs exactly, with mantissa*2^exp <= bitrate. Reduced: rate.py (estimator, "
                 "AIMD bounds, rate counter window) is float code that the engine does not model and is not decided.",
        "note": "Only the 'REMB can encode it' conjunct of C15 is decided. The estimator bounds (1.5x+10k, 0.85x) and "
                "no-raise over arrival histories are NOT decided by this check.",
        "design_ref": "DESIGN.md 4.15, 9",
        "trusted_base": COMMON,
        "not_decided": ["rate.py: RemoteBitrateEstimator, AimdRateControl (F-18), OveruseDetector, RateCounter"],
    },
    "C17": {
        "claim": "Proof that uint16/uint32 add, gt, gte implement RFC 1982 serial arithmetic, and lemmas over those "
                 "contracts: irreflexive, antisymmetric, total except at distance exactly half, consistent with modular "
                 "addition (a+d ahead of a for 0<d<half) and translation invariant (gt(a,b) == gt(a+k,b+k)) for all values.",
        "note": "The schedule-level statement ('delivers exactly the same under the same network schedule') is not "
                "decided; only the arithmetic it rests on.",
        "design_ref": "DESIGN.md 4.17",
        "trusted_base": COMMON,
        "assumptions": ["A-WINDOW: live values within half the number space of the tracked point"],
        "not_decided": ["the schedule-level statement 'delivers exactly the same under the same network schedule'"],
    },
    "C18": {
        "claim": "Proof that the receiver-report wire layer never fails for in-range figures: clamp_packets_lost saturates "
                 "to the signed 24-bit range, pack_packets_lost/unpack_packets_lost are inverse on it, and "
                 "RtcpReceiverInfo.__bytes__ produces the 24-byte RFC 3550 block for all field values within their widths.",
        "note": "Reduced to the serialisation layer plus StreamStatistics units listed in the evidence file.",
        "design_ref": "DESIGN.md 4.18, 9",
        "trusted_base": COMMON,
        "not_decided": ["report construction loop in RTCRtpReceiver._run_rtcp (F-20)"],
    },
}

NOT_APPLICABLE = {
    "C09": "SDP parse/serialise is string/regex code; no contract within reach of the installed solvers decides the round trip (DESIGN 4.9)",
    "C19": "termination and absence of leftover tasks/threads across coroutine interleavings is not expressible as a function contract (DESIGN 4.19)",
}
