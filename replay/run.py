#!/venv/bin/python
"""Replay a candidate counterexample (or a committed witness) against the real code.

usage: /venv/bin/python replay/run.py <replay.json>      (prints one JSON object)

The replay file names the unit (function contract or harness), carries the inputs, and this
runner evaluates the *same contract text* the prover used, at run time, on the real objects.
"""
from __future__ import annotations

import importlib
import json
import os
import signal
import struct
import sys
import traceback

HERE = os.path.dirname(os.path.abspath(__file__))
ROOT = os.path.dirname(HERE)
sys.path.insert(0, ROOT)

from pyvc.contracts import load_sidecars  # noqa: E402
from pyvc import runtime  # noqa: E402

EXC_PARENT_EXTRA = {"struct.error": struct.error, "error": struct.error}


class Hang(Exception):
    pass


def _alarm(signum, frame):
    raise Hang()


def find_class(name: str, default_module=None):
    if ":" in name:
        modname, cname = name.split(":")
        return getattr(importlib.import_module(modname), cname)
    mods = [default_module] if default_module else []
    mods += ["aiortc.rtp", "aiortc.rtcsctptransport", "aiortc.jitterbuffer", "aiortc.rtcrtpreceiver",
             "aiortc.rtcrtpsender", "aiortc.rtcdtlstransport", "aiortc.rate", "aiortc.rtcdatachannel",
             "aiortc.rtcrtpparameters", "aiortc.codecs.h264", "aiortc.codecs.vpx", "aiortc.rtcpeerconnection",
             "aiortc.sdp", "aiortc.rtcsessiondescription", "aiortc.codecs"]
    for m in mods:
        try:
            mod = importlib.import_module(m) if isinstance(m, str) else m
        except Exception:
            continue
        if hasattr(mod, name):
            return getattr(mod, name)
    if name.endswith("Ids"):
        # a view type of the sidecars (HeaderExtensionsIds: a HeaderExtensions object whose fields hold extension ids)
        return find_class(name[:-3], default_module)
    raise KeyError(name)


OPAQUES: dict = {}
_PARTIAL: dict = {}


class _Stub:
    """stands for state the contract does not describe (loggers, events, transports, timers): absorbs everything"""
    def __call__(self, *a, **kw):
        return self

    def __getattr__(self, name):
        if name.startswith("__") and name.endswith("__"):
            raise AttributeError(name)
        return self

    def __await__(self):
        return iter(())

    def __bool__(self):
        return False

    def __iter__(self):
        return iter(())


def _partial(cls):
    """A rebuilt object carries only the fields its sidecar declares.  For classes with a large amount of other state
    (peer connection, receiver, transport) a subclass of the same name supplies inert stand-ins for everything else."""
    if cls.__module__.startswith("aiortc") and cls.__name__ in ("RTCRtpReceiver", "RTCRtpSender", "RTCPeerConnection",
                                                                "RTCSctpTransport", "RTCDtlsTransport", "RTCDataChannel"):
        if cls not in _PARTIAL:
            def _emit(self, *a, **kw):
                # a rebuilt object has no listener table: nobody listens
                return cls.emit(self, *a, **kw) if "_events" in self.__dict__ else False

            def _ral(self, *a, **kw):
                return cls.remove_all_listeners(self, *a, **kw) if "_events" in self.__dict__ else None
            ns = {"__getattr__": lambda self, n: (_ for _ in ()).throw(AttributeError(n))
                  if (n.startswith("__") and n.endswith("__")) else _Stub()}
            if hasattr(cls, "emit"):
                ns.update(emit=_emit, remove_all_listeners=_ral)
            _PARTIAL[cls] = type(cls.__name__, (cls,), ns)
        return _PARTIAL[cls]
    return cls
REFS: dict = {}             # "$oid" -> rebuilt object, per judged call (identity-preserving copies)
FIELD_TYPES: dict = {}      # class name -> {field: declared type text}, filled from the sidecars in prepare()


def decode(x, module=None):
    if isinstance(x, dict):
        if "$bytes" in x:
            return bytes.fromhex(x["$bytes"])
        if "$tuple" in x:
            return tuple(decode(e, module) for e in x["$tuple"])
        if "$set" in x:
            return set(decode(e, module) for e in x["$set"])
        if "$dict" in x:
            return {decode(k, module): decode(v, module) for k, v in x["$dict"]}
        if "$opaque" in x:
            key = x["$opaque"]
            if key not in OPAQUES:
                from replay.builders import _Endpoint
                OPAQUES[key] = _Endpoint(key)
            return OPAQUES[key]
        if "$builder" in x:
            from replay import builders
            return getattr(builders, x["$builder"])(**{k: decode(v, module) for k, v in x.items() if k != "$builder"})
        if "$enum" in x:
            ecls = find_class(x["$enum"].split(".")[0], module)
            for part in x["$enum"].split(".")[1:]:
                ecls = getattr(ecls, part)
            members = list(ecls)
            return ecls[x["name"]] if "name" in x else members[(x["index"] - 1) % len(members)]
        if "$ref" in x:
            return REFS[x["$ref"]]
        if "$class" in x:
            cls = find_class(x["$class"], module)
            obj = _partial(cls).__new__(_partial(cls))
            if "$oid" in x:
                REFS[x["$oid"]] = obj      # registered before its fields are filled: back references resolve
            for k, v in x.items():
                if k.startswith("$"):
                    continue
                name = k
                if k.startswith("__") and not k.endswith("__"):
                    name = f"_{cls.__name__.lstrip('_')}{k}"
                val = decode(v, module)
                ftxt = FIELD_TYPES.get(cls.__name__, {}).get(k, "")
                if isinstance(val, int) and not isinstance(val, bool) and "." in ftxt and "[" not in ftxt:
                    # a solver model gives an enumeration member by its position (1-based, definition order)
                    try:
                        val = decode({"$enum": ftxt, "index": val}, module)
                    except Exception:
                        pass
                if ftxt.startswith("deque[") and isinstance(val, list):
                    import collections
                    val = collections.deque(val)
                try:
                    object.__setattr__(obj, name, val)
                except AttributeError:
                    pass  # a field of a base class that this class overrides with a read-only property
            return obj
        return {k: decode(v, module) for k, v in x.items()}
    if isinstance(x, list):
        return [decode(e, module) for e in x]
    return x


def exc_class(name: str):
    import builtins
    if name in EXC_PARENT_EXTRA:
        return EXC_PARENT_EXTRA[name]
    if hasattr(builtins, name):
        return getattr(builtins, name)
    for m in ("aiortc.exceptions", "aiortc.rtcpeerconnection", "aiortc.mediastreams"):
        try:
            mod = importlib.import_module(m)
            if hasattr(mod, name):
                return getattr(mod, name)
        except Exception:
            pass
    return None


def brief(x, depth=0):
    try:
        r = repr(x)
    except Exception:
        r = f"<{type(x).__name__}>"
    return r if len(r) < 400 else r[:400] + "..."


def prepare(spec: dict):
    reg = load_sidecars(os.path.join(ROOT, "contracts"))
    for q, cs in reg.classes.items():
        FIELD_TYPES[q.split(":")[-1]] = dict(cs.fields)
    ctx = runtime.Ctx(reg)
    unit = spec["unit"]
    if unit in reg.harnesses:
        h = reg.harnesses[unit]
        c = h.contract
        mod = importlib.import_module(h.module)
        ns = dict(vars(mod))
        exec(compile(__import__("textwrap").dedent(h.source), f"<harness {unit}>", "exec"), ns)
        import ast as _ast
        fname = _ast.parse(__import__("textwrap").dedent(h.source)).body[0].name
        fn = ns[fname]
        owner = None
    else:
        from pyvc.contracts import split_unit
        base, inst = split_unit(unit)
        ctx.env.update(inst)          # instance constants (e.g. CAP) are visible to contract expressions
        c = reg.contracts[base]
        mod, owner, fn = runtime.resolve(base)
        unit = base
        # classes of the unit's module are visible by name (RTCSctpTransport.State.ESTABLISHED), as they are to the prover
        for k_, v_ in vars(mod).items():
            if isinstance(v_, type) and k_ not in ctx.env:
                ctx.env[k_] = v_
    return reg, ctx, unit, c, mod, owner, fn


INSTANCE: dict = {}


def run(spec: dict) -> dict:
    from pyvc.contracts import split_unit
    INSTANCE.clear()
    INSTANCE.update(split_unit(spec.get("unit", ""))[1])
    prep = prepare(spec)
    timeout = float(spec.get("timeout", 3))
    excl = spec.get("exclude_regions") or []
    if "search" in spec:
        return search(prep, spec, timeout, excl)
    return judge(prep, spec["inputs"], timeout, excl)


def search(prep, spec, timeout, excl=()) -> dict:
    """Fallback when the solver's candidate model does not replay: boundary-biased inputs that
    satisfy the precondition, judged by the same contract.  Bounded; never counted as proof."""
    import random
    from replay import gen, builders
    from pyvc.contracts import split_unit
    inst = split_unit(spec.get("unit", ""))[1]
    sp = spec["search"]
    rng = random.Random(sp.get("seed", 0))
    tried = satisfied = 0
    seeds = list(sp.get("seeds", []))
    # scenario mode: when the unit is a method of a class that has a state builder, drive the real class through
    # random client scenarios and judge every call of the method (on a copy of its arguments) with the contract
    reg, ctx, unit, c, mod, owner, fn = prep
    if owner is not None and owner.__name__ in builders.BUILDERS and not unit.endswith(".__init__"):
        hit = scenario_search(prep, sp, rng, inst, timeout, excl)
        if hit is not None:
            return hit
    pool = [dict(w) for w in seeds if isinstance(w, dict)]
    for i in range(int(sp.get("n", 200))):
        # the sidecar's witnesses come first; a witness that leaves a parameter open (typically self) is completed with
        # generated values, and every third later draw re-uses a witness's arguments with a newly generated rest
        inputs = dict(seeds.pop(0)) if seeds else (dict(rng.choice(pool)) if pool and i % 3 == 0 else {})
        if True:
            for k, t in sp["types"].items():
                if k in inputs:
                    continue
                b = builders.BUILDERS.get(t.strip())
                made = None
                if b is not None and rng.random() < 0.85:
                    try:
                        made = builders.to_json(b(rng, inst), sp.get("classes") or {})
                    except Exception:
                        made = None
                inputs[k] = made if made is not None else gen.gen(t, rng, sp.get("classes"))
        tried += 1
        out = judge(prep, inputs, min(timeout, 1.0), excl)
        if out["status"] in ("precondition-false", "precondition-error"):
            continue
        satisfied += 1
        if out["status"] == "violation":
            want = sp.get("kind")
            if want is None or out.get("kind", "").startswith(want):
                out["inputs"] = inputs
                out["tried"] = tried
                out["satisfied"] = satisfied
                return out
    return {"status": "ok", "tried": tried, "satisfied": satisfied}


class _Found(BaseException):
    pass


def scenario_search(prep, sp, rng, inst, timeout, excl):
    import inspect
    from replay import builders
    reg, ctx, unit, c, mod, owner, fn = prep
    mname = unit.split(".")[-1]
    attr = mname if (not mname.startswith("__") or mname.endswith("__")) else f"_{owner.__name__.lstrip('_')}{mname}"
    raw = owner.__dict__.get(attr)
    if raw is None or isinstance(raw, (property, staticmethod, classmethod)):
        return None
    classes = sp.get("classes") or {}
    params = [p for p in inspect.signature(raw).parameters][1:]
    state = {"busy": False, "hit": None, "calls": 0}

    def wrapper(self, *a, **kw):
        if not state["busy"] and state["hit"] is None and state["calls"] < 4000:
            state["busy"] = True
            state["calls"] += 1
            try:
                memo = {}
                inputs = {"self": builders.to_json(self, classes, 0, memo)}
                for name, val in list(zip(params, a)) + list(kw.items()):
                    inputs[name] = builders.to_json(val, classes, 0, memo)
                out = judge(prep, inputs, min(timeout, 1.0), excl)
                if out.get("status") == "violation":
                    out["inputs"] = inputs
                    state["hit"] = out
            except Exception:
                pass
            finally:
                state["busy"] = False
            if state["hit"] is not None:
                raise _Found()
        return raw(self, *a, **kw)

    setattr(owner, attr, wrapper)
    try:
        b = builders.BUILDERS[owner.__name__]
        for _ in range(int(sp.get("n", 200))):
            try:
                b(rng, inst)
            except _Found:
                break
            except Exception:
                continue
            if state["hit"] is not None:
                break
    finally:
        setattr(owner, attr, raw)
    if state["hit"] is not None:
        state["hit"]["found_by"] = f"scenario search ({state['calls']} judged calls)"
    return state["hit"]


def judge(prep, inputs_json: dict, timeout: float, excl=()) -> dict:
    reg, ctx, unit, c, mod, owner, fn = prep
    is_init = unit.endswith(".__init__") and owner is not None
    OPAQUES.clear()
    REFS.clear()
    inputs = {k: decode(v, mod) for k, v in inputs_json.items() if not (is_init and k == "self")}
    if is_init:
        # the constructor runs on a fresh object; a 'self' in a solver model is the unconstrained pre-state
        inputs_json = {k: v for k, v in inputs_json.items() if k != "self"}
        inputs = {k: v for k, v in inputs.items() if k != "self"}
        inputs["self"] = owner.__new__(owner)
    emit_st = {"viol": None, "snap": None, "fields": []}
    if owner is not None and c.at_emit:
        for q, cs_ in reg.classes.items():
            if q.split(":")[-1] == owner.__name__:
                for f_, t_ in cs_.fields.items():
                    t_ = t_[4:-1] if t_.startswith("opt[") else t_
                    if t_ in ("int", "bool", "str", "float"):
                        emit_st["fields"].append(f"_{owner.__name__.lstrip('_')}{f_}" if f_.startswith("__") and not f_.endswith("__") else f_)
    # ghost event log: classes whose sidecar declares the ghost field `emitted` record the names passed to emit()
    seen_ids_ = set()
    for obj in list(inputs.values()) + list(REFS.values()):      # also objects nested in the arguments (channels of a table)
        if id(obj) in seen_ids_:
            continue
        seen_ids_.add(id(obj))
        cs = next((c_ for q, c_ in reg.classes.items() if q.split(":")[-1] == type(obj).__name__), None)
        if cs is not None and "emitted" in cs.ghost_fields:
            if not isinstance(getattr(obj, "emitted", None), list):
                obj.emitted = []

            if "message_data" in cs.ghost_fields:
                if not isinstance(getattr(obj, "message_data", None), list):
                    obj.message_data = []
                if not isinstance(getattr(obj, "message_is_text", None), list):
                    obj.message_is_text = []

            def _emit(name, *a, _o=obj, _real=getattr(type(obj), "emit", None), **kw):
                _o.emitted.append(name)
                if name == "message" and isinstance(getattr(_o, "message_data", None), list):
                    arg_ = a[0] if a else None
                    _o.message_data.append(arg_.encode("utf8") if isinstance(arg_, str) else
                                           (bytes(arg_) if isinstance(arg_, (bytes, bytearray)) else b""))
                    _o.message_is_text.append(isinstance(arg_, str))
                if _o is inputs.get("self") and c.at_emit and "old" in emit_st:
                    # the state a listener observes (same clauses as the prover's at_emit obligations)
                    for k_, r_ in enumerate(c.at_emit):
                        try:
                            if emit_st["viol"] is None and not ctx.evaluate(r_, dict(emit_st["local"]), emit_st["old"]):
                                emit_st["viol"] = (k_, r_)
                        except Exception:
                            pass
                    emit_st["snap"] = {f_: getattr(_o, f_, None) for f_ in emit_st["fields"]}
                try:
                    return _real(_o, name, *a, **kw) if _real is not None else False
                except Exception:
                    return False     # a partially rebuilt object has no listener table
            obj.emit = _emit
            if not hasattr(obj, "_events"):
                obj.remove_all_listeners = lambda *a, **kw: None
    local = dict(inputs)
    # a unit verified per type parameter (params declared '$NAME') only speaks about arguments of that class
    for pname, ptxt in c.params.items():
        if ptxt.startswith("$") and ptxt[1:] in INSTANCE and pname in inputs:
            if type(inputs[pname]).__name__ != str(INSTANCE[ptxt[1:]]):
                return {"status": "precondition-false", "clause": f"{pname} is not a {INSTANCE[ptxt[1:]]}"}
    # class invariants are part of the method's pre- and postcondition (same rule as the prover)
    inv = []
    if owner is not None and c.invariants:
        for q, cs in reg.classes.items():
            if q.split(":")[-1] == owner.__name__:
                inv = list(cs.invariant)
    from pyvc.contracts import active_clauses
    requires = ([] if is_init else inv) + active_clauses(c.requires, INSTANCE)
    ensures = inv + active_clauses(c.ensures, INSTANCE)
    # 1. precondition
    try:
        for r in requires:
            if not ctx.evaluate(r, local):
                return {"status": "precondition-false", "clause": r}
    except Exception as ex:
        if os.environ.get("PYVC_REPLAY_DEBUG"):
            traceback.print_exc(limit=-12)
        return {"status": "precondition-error", "detail": f"{type(ex).__name__}: {ex}"}
    for region in excl:
        try:
            if ctx.evaluate(region, local):
                return {"status": "precondition-false", "clause": "inside known-finding region: " + region}
        except Exception:
            pass
    old_local = ctx.snapshot_all(local)
    emit_st["old"] = old_local
    emit_st["local"] = local
    # Methods of the same object whose contract is *assumed* (trusted=True, raises nothing): the real body runs, but on a
    # partially rebuilt object it may fail on state the contracts do not describe; such a failure is swallowed, which is
    # the behaviour the assumed contract promises (the caller's proof never looked inside).
    if owner is not None and "self" in inputs:
        import inspect as _insp
        for q_, tc_ in reg.contracts.items():
            pref_ = f"{owner.__module__}:{owner.__name__}."
            if not (tc_.trusted and q_.startswith(pref_) and not tc_.raises):
                continue
            mn_ = q_[len(pref_):]
            an_ = mn_ if (not mn_.startswith("__") or mn_.endswith("__")) else f"_{owner.__name__.lstrip('_')}{mn_}"
            real_ = getattr(owner, an_, None)
            if real_ is None or not callable(real_):
                continue
            if _insp.iscoroutinefunction(real_):
                async def _shield(*a, _r=real_, _o=inputs["self"], **kw):
                    try:
                        return await _r(_o, *a, **kw)
                    except Exception:
                        return None
            else:
                def _shield(*a, _r=real_, _o=inputs["self"], **kw):
                    try:
                        return _r(_o, *a, **kw)
                    except Exception:
                        return None
            try:
                object.__setattr__(inputs["self"], an_, _shield)
            except Exception:
                pass
    # Assumed module-level functions whose contract defines the result as uf_str('tag', ...): replays use the registered
    # run-time reading of that tag (rebuilt objects carry no real certificate / key material to compute the real one on).
    import re as _re
    from pyvc.contracts import RUNTIME_FNS as _RF
    for q_, tc_ in reg.contracts.items():
        if tc_.trusted and q_.startswith(mod.__name__ + ":") and "." not in q_.split(":")[1]:
            m_ = _re.search(r"result == uf_str\('([^']+)'", " ".join(tc_.ensures))
            if m_ and m_.group(1) in _RF and hasattr(mod, q_.split(":")[1]):
                setattr(mod, q_.split(":")[1], (lambda *a, _f=_RF[m_.group(1)], **kw: _f(*a, **kw)))
    # at_call clauses: judged at every call of the named callee made from the unit's own frame, with the caller's locals
    # and the callee's parameters (bound to the actual arguments) in scope - the run-time reading of the prover's obligations
    at_call_viol = []
    if owner is not None and "self" in inputs and getattr(c, "at_call", None):
        import inspect as _insp2
        for cal_, clauses_ in c.at_call.items():
            an2_ = cal_ if (not cal_.startswith("__") or cal_.endswith("__")) else f"_{owner.__name__.lstrip('_')}{cal_}"
            cur_ = getattr(inputs["self"], an2_, None)
            real2_ = getattr(owner, an2_, None)
            modlevel_ = False
            if cur_ is None and real2_ is None and callable(getattr(mod, cal_, None)):
                # the callee is a function of the unit's module (HeaderExtensionsMap.set -> pack_header_extensions)
                cur_ = real2_ = getattr(mod, cal_)
                modlevel_ = True
            if cur_ is None or real2_ is None:
                continue
            try:
                sig_ = _insp2.signature(real2_)
            except (TypeError, ValueError):
                continue

            def _probe(*a, _cur=cur_, _sig=sig_, _cl=clauses_, _name=cal_, _ml=modlevel_, **kw):
                fr = sys._getframe(1)
                if fr.f_code.co_name == unit.split(".")[-1]:
                    try:
                        ba = _sig.bind(*a, **kw) if _ml else _sig.bind(inputs["self"], *a, **kw)
                        ba.apply_defaults()
                        env_ = dict(fr.f_locals)
                        env_.update({k_: v_ for k_, v_ in ba.arguments.items() if k_ != "self"})
                        env_.setdefault("self", inputs["self"])
                        for k_, r_ in enumerate(_cl):
                            if not at_call_viol and not ctx.evaluate(r_, env_, emit_st.get("old")):
                                at_call_viol.append((f"at_call[{_name}][{k_}]", r_,
                                                     {n_: brief(v_) for n_, v_ in ba.arguments.items() if n_ != "self"}))
                    except Exception:
                        pass
                return _cur(*a, **kw)
            try:
                if modlevel_:
                    setattr(mod, cal_, _probe)
                else:
                    object.__setattr__(inputs["self"], an2_, _probe)
            except Exception:
                pass
    # 2. call with watchdog
    args = dict(inputs)
    call = fn
    if owner is not None and "self" in args:
        self_obj = args.pop("self")
        raw = owner.__dict__.get(fn.__name__ if hasattr(fn, "__name__") else "", None)
        if isinstance(raw, property):
            call = lambda **kw: raw.fget(self_obj)  # noqa: E731
        else:
            call = getattr(self_obj, unit.split(".")[-1] if not unit.split(".")[-1].startswith("__") or unit.split(".")[-1].endswith("__")
                           else f"_{owner.__name__.lstrip('_')}{unit.split('.')[-1]}")
    elif isinstance(fn, property):
        self_obj = args.pop("self")
        call = lambda **kw: fn.fget(self_obj)  # noqa: E731
    signal.signal(signal.SIGALRM, _alarm)
    signal.setitimer(signal.ITIMER_REAL, timeout)
    raised = None
    result = None
    try:
        import inspect
        out = call(**args)
        if inspect.iscoroutine(out):
            import asyncio
            loop_ = asyncio.new_event_loop()
            try:
                out = loop_.run_until_complete(out)
            finally:
                loop_.close()
        if inspect.isgenerator(out):
            out = list(out)
        result = out
    except Hang:
        if any(getattr(l, "decreases", None) == "forever" for l in c.loops.values()):
            # a service loop (ends only by cancellation): running until the watchdog fires is its normal behaviour
            return {"status": "ok", "result": "service loop interrupted by the watchdog"}
        return {"status": "violation", "kind": "hang", "detail": f"no return within {timeout}s"}
    except BaseException as ex:  # noqa
        raised = ex
    finally:
        signal.setitimer(signal.ITIMER_REAL, 0)
    # 3. judge with the contract
    if raised is not None:
        name = type(raised).__name__
        for allowed, cond in c.raises.items():
            cls = exc_class(allowed)
            if cls is not None and isinstance(raised, cls):
                if cond is not None:
                    try:
                        ok = ctx.evaluate(cond.lstrip("?"), old_local)
                    except Exception as ex:
                        return {"status": "error", "detail": f"raise condition: {type(ex).__name__}: {ex}"}
                    if not ok:
                        return {"status": "violation", "kind": f"raises[{allowed}].when", "exception": name,
                                "detail": f"{name}: {raised} raised although the stated condition is false"}
                return {"status": "ok", "raised": name}
        tb = traceback.format_exception(type(raised), raised, raised.__traceback__)
        return {"status": "violation", "kind": "raises", "exception": f"{type(raised).__module__}.{name}",
                "detail": f"{name}: {raised}", "traceback": tb[-3:]}
    local["result"] = result
    if at_call_viol:
        return {"status": "violation", "kind": at_call_viol[0][0], "clause": at_call_viol[0][1],
                "detail": "false at a call made by the unit; arguments: " + str(at_call_viol[0][2])[:300]}
    if emit_st["viol"] is not None:
        return {"status": "violation", "kind": f"at_emit[{emit_st['viol'][0]}]", "clause": emit_st["viol"][1],
                "detail": "false when self.emit() was called: a listener observes this state"}
    if emit_st["snap"] is not None and "self" in inputs:
        for f_, v_ in emit_st["snap"].items():
            cur_ = getattr(inputs["self"], f_, None)
            if not all(x is None or isinstance(x, (int, float, str, bool)) for x in (cur_, v_)):
                continue     # stand-in for a field the counter-model leaves open: nothing to compare
            if cur_ != v_:
                return {"status": "violation", "kind": f"after_emit[{f_.split('__')[-1] if '__' in f_ else f_}]",
                        "detail": f"self.{f_} was {v_!r} when emit() was called and is {getattr(inputs['self'], f_, None)!r} at exit: "
                                  "written after listeners ran"}
    for exc, cond in c.raises.items():
        if cond is not None and not cond.startswith("?"):
            try:
                if ctx.evaluate(cond, old_local):
                    return {"status": "violation", "kind": f"raises[{exc}].iff",
                            "detail": f"returned normally although {cond!r} holds", "result": brief(result)}
            except Exception:
                pass
    for k, e in enumerate(ensures):
        try:
            ok = ctx.evaluate(e, local, old_local)
        except runtime._Short:
            ok = False
        except Exception as ex:
            # a contract the runner cannot evaluate is a defect of the runner/contract, never a violation
            return {"status": "error", "kind": f"ensures[{k}]", "clause": e,
                    "detail": f"postcondition not evaluable: {type(ex).__name__}: {ex}", "result": brief(result)}
        if not ok:
            return {"status": "violation", "kind": f"ensures[{k}]", "clause": e, "result": brief(result)}
    return {"status": "ok", "result": brief(result)}


def main():
    path = sys.argv[1]
    with open(path) as fh:
        spec = json.load(fh)
    try:
        out = run(spec)
    except Exception as ex:
        out = {"status": "error", "detail": f"{type(ex).__name__}: {ex}", "traceback": traceback.format_exc().splitlines()[-6:]}
    print(json.dumps(out))


if __name__ == "__main__":
    main()
