"""State builders for the fallback input search (bounded; only ever used to find a replayable witness for an
obligation that already failed, never to pass a check).  A builder reaches a valid object state the way a client
would: through the constructor and public methods of the *real* class, with boundary-biased arguments."""
from __future__ import annotations

import importlib


def to_json(x, classes, depth=0):
    if isinstance(x, (bytes, bytearray)):
        return {"$bytes": bytes(x).hex()}
    if isinstance(x, bool) or x is None or isinstance(x, (int, float, str)):
        return x
    if isinstance(x, tuple):
        return {"$tuple": [to_json(e, classes, depth + 1) for e in x]}
    if isinstance(x, (list,)) or type(x).__name__ == "deque":
        return [to_json(e, classes, depth + 1) for e in x]
    if isinstance(x, set):
        return {"$set": [to_json(e, classes, depth + 1) for e in x]}
    if isinstance(x, dict):
        return {"$dict": [[to_json(k, classes, depth + 1), to_json(v, classes, depth + 1)] for k, v in x.items()]}
    cname = type(x).__name__
    if cname in classes and depth < 6:
        out = {"$class": cname}
        for f in classes[cname]:
            name = f
            if f.startswith("__") and not f.endswith("__"):
                name = f"_{cname.lstrip('_')}{f}"
            if hasattr(x, name):
                out[f] = to_json(getattr(x, name), classes, depth + 1)
        return out
    return None


def _packet(rng, seq, ts):
    from aiortc.rtp import RtpPacket
    p = RtpPacket(payload_type=96, sequence_number=seq % 65536, timestamp=ts % (1 << 32))
    p._data = bytes(rng.getrandbits(8) for _ in range(rng.choice([0, 1, 2, 3])))
    return p


def JitterBuffer(rng, inst):
    from aiortc.jitterbuffer import JitterBuffer as JB
    cap = inst.get("CAP") or rng.choice([1, 2, 4, 8, 16])
    jb = JB(capacity=cap, prefetch=rng.choice([0, 0, 1, 2, 4]), is_video=rng.random() < 0.5)
    seq = rng.choice([0, 1, 65530, 65535, 32760, rng.randrange(65536)])
    ts = rng.choice([0, 0, 1, (1 << 32) - 1, (1 << 32) - 2, rng.randrange(1 << 32)])
    for _ in range(rng.choice([0, 1, 2, 3, 5, 8, 12])):
        r = rng.random()
        if r < 0.55:
            seq += 1
        elif r < 0.7:
            seq += 2
        elif r < 0.8:
            seq -= rng.choice([1, 2, 3])
        elif r < 0.9:
            seq += cap
        else:
            seq -= rng.choice([100, 150])
        if rng.random() < 0.4:
            ts += rng.choice([1, 1, 2, 3000])
        jb.add(_packet(rng, seq, ts))
    return jb


def RtpPacket(rng, inst):
    return _packet(rng, rng.choice([0, 1, 65535, 65534, rng.randrange(65536)]),
                   rng.choice([0, 1, (1 << 32) - 1, rng.randrange(1 << 32)]))


def NackGenerator(rng, inst):
    from aiortc.rtcrtpreceiver import NackGenerator as NG
    g = NG()
    seq = rng.choice([0, 1, 65530, 65535, 65400, 32760, rng.randrange(65536)])
    for _ in range(rng.choice([0, 1, 2, 3, 5, 8, 12, 20])):
        r = rng.random()
        if r < 0.4:
            seq += 1
        elif r < 0.7:
            seq += rng.choice([2, 3, 5, 17])
        elif r < 0.8:
            seq -= rng.choice([1, 2, 3, 130])
        elif r < 0.9:
            seq += rng.choice([127, 128, 129, 200])
        else:
            seq += rng.choice([1000, 32767, 40000])
        g.add(_packet(rng, seq, 0))
    return g


BUILDERS = {"NackGenerator": NackGenerator, "JitterBuffer": JitterBuffer, "RtpPacket": RtpPacket}
