"""State builders for the fallback input search (bounded; only ever used to find a replayable witness for an
obligation that already failed, never to pass a check).  A builder reaches a valid object state the way a client
would: through the constructor and public methods of the *real* class, with boundary-biased arguments."""
from __future__ import annotations

import importlib


def to_json(x, classes, depth=0, memo=None):
    """JSON form of a value.  `memo` (shared by all arguments of one call) keeps object identity: the second occurrence
    of an object is written as {"$ref": n}, so aliasing between arguments (a chunk that is also in self's queue) and
    back references (channel -> transport -> channel) survive the copy."""
    if memo is None:
        memo = {}
    if isinstance(x, (bytes, bytearray)):
        return {"$bytes": bytes(x).hex()}
    if isinstance(x, bool) or x is None or isinstance(x, (int, float, str)):
        return x
    if isinstance(x, tuple):
        return {"$tuple": [to_json(e, classes, depth + 1, memo) for e in x]}
    if isinstance(x, (list,)) or type(x).__name__ == "deque":
        return [to_json(e, classes, depth + 1, memo) for e in x]
    if isinstance(x, set):
        return {"$set": [to_json(e, classes, depth + 1, memo) for e in x]}
    if isinstance(x, dict):
        return {"$dict": [[to_json(k, classes, depth + 1, memo), to_json(v, classes, depth + 1, memo)] for k, v in x.items()]}
    import enum
    if isinstance(x, enum.Enum):
        return {"$enum": type(x).__qualname__, "name": x.name}
    cname = type(x).__name__
    if cname in classes and id(x) in memo:
        return {"$ref": memo[id(x)]}
    if cname in classes and depth < 12:
        memo[id(x)] = len(memo) + 1
        out = {"$class": cname, "$oid": memo[id(x)]}
        for f in classes[cname]:
            name = f
            if f.startswith("__") and not f.endswith("__"):
                name = f"_{cname.lstrip('_')}{f}"
            if hasattr(x, name):
                out[f] = to_json(getattr(x, name), classes, depth + 1, memo)
        # attributes the sidecar does not declare (e.g. state added by a later change) travel along unchanged,
        # so that the rebuilt object is a faithful copy
        try:
            extra = vars(x)
        except TypeError:
            extra = {}
        for name, val in extra.items():
            plain = name
            pref = f"_{cname.lstrip('_')}__"
            if name.startswith(pref):
                plain = "__" + name[len(pref):]
            if plain not in out:
                out[plain] = to_json(val, classes, depth + 1, memo)
        return out
    # an object the contracts treat as an opaque reference: identified by name, rebuilt as one object per name
    return {"$opaque": getattr(x, "name", None) or f"{cname}@{id(x)}"}


def _run_coro(coro):
    """run a coroutine to completion on a loop of its own and close the loop (a leaked loop keeps file descriptors)"""
    import asyncio
    loop = asyncio.new_event_loop()
    try:
        return loop.run_until_complete(coro)
    finally:
        loop.close()


def _packet(rng, seq, ts):
    from aiortc.rtp import RtpPacket
    p = RtpPacket(payload_type=96, sequence_number=seq % 65536, timestamp=ts % (1 << 32))
    p._data = bytes(rng.getrandbits(8) for _ in range(rng.choice([0, 1, 2, 3])))
    return p


def JitterBuffer(rng, inst):
    from aiortc.jitterbuffer import JitterBuffer as JB
    cap = inst.get("CAP") or rng.choice([1, 2, 4, 8, 16])
    jb = JB(capacity=cap, prefetch=rng.choice([0, 0, 1, 2, 4]), is_video=rng.random() < 0.5)
    seq = rng.choice([0, 1, 65530, 65535, 32760, rng.randrange(65536)])
    ts = rng.choice([0, 0, 1, (1 << 32) - 1, (1 << 32) - 2, rng.randrange(1 << 32)])
    for _ in range(rng.choice([0, 1, 2, 3, 5, 8, 12])):
        r = rng.random()
        if r < 0.55:
            seq += 1
        elif r < 0.7:
            seq += 2
        elif r < 0.8:
            seq -= rng.choice([1, 2, 3])
        elif r < 0.9:
            seq += cap
        else:
            seq -= rng.choice([100, 150])
        if rng.random() < 0.4:
            ts += rng.choice([1, 1, 2, 3000])
        jb.add(_packet(rng, seq, ts))
    return jb


def RtpPacket(rng, inst):
    return _packet(rng, rng.choice([0, 1, 65535, 65534, rng.randrange(65536)]),
                   rng.choice([0, 1, (1 << 32) - 1, rng.randrange(1 << 32)]))


def NackGenerator(rng, inst):
    from aiortc.rtcrtpreceiver import NackGenerator as NG
    g = NG()
    seq = rng.choice([0, 1, 65530, 65535, 65400, 32760, rng.randrange(65536)])
    for _ in range(rng.choice([0, 1, 2, 3, 5, 8, 12, 20])):
        r = rng.random()
        if r < 0.4:
            seq += 1
        elif r < 0.7:
            seq += rng.choice([2, 3, 5, 17])
        elif r < 0.8:
            seq -= rng.choice([1, 2, 3, 130])
        elif r < 0.9:
            seq += rng.choice([127, 128, 129, 200])
        else:
            seq += rng.choice([1000, 32767, 40000])
        g.add(_packet(rng, seq, 0))
    return g


class _Absorb:
    """result of using an opaque object: callable, awaitable, falsy, absorbs every attribute"""
    def __call__(self, *a, **kw):
        return self

    def __getattr__(self, name):
        if name.startswith("__") and name.endswith("__"):
            raise AttributeError(name)
        return self

    def __await__(self):
        return iter(())

    def __bool__(self):
        return False

    def __iter__(self):
        return iter(())


class _Endpoint:
    """stand-in for an object the contracts treat as an opaque reference (a receiver, a sender, a transport, an event):
    stored and compared by identity; any method called on it does nothing"""
    def __init__(self, name):
        self.name = name

    def __getattr__(self, attr):
        if attr.startswith("__") and attr.endswith("__"):
            raise AttributeError(attr)
        return _Absorb()

    def __repr__(self):
        return f"<{self.name}>"


def RtpRouter(rng, inst):
    from aiortc.rtcdtlstransport import RtpRouter as RR
    from aiortc.rtp import RtpPacket as RP
    r = RR()
    recvs = [_Endpoint(f"recv{i}") for i in range(3)]
    sends = [_Endpoint(f"send{i}") for i in range(3)]
    ssrcs = [0, 1, 2, 1234, (1 << 32) - 1]
    pts = [0, 96, 97, 111]
    for _ in range(rng.choice([0, 1, 2, 3, 5, 8])):
        op = rng.random()
        if op < 0.35:
            r.register_receiver(rng.choice(recvs), rng.sample(ssrcs, rng.choice([0, 1, 2])), rng.sample(pts, rng.choice([0, 1, 2])),
                                mid=rng.choice([None, "0", "1"]))
        elif op < 0.5:
            r.register_sender(rng.choice(sends), rng.choice(ssrcs))
        elif op < 0.65:
            r.unregister_receiver(rng.choice(recvs))
        elif op < 0.75:
            r.unregister_sender(rng.choice(sends))
        elif op < 0.88:
            r.route_rtp(RP(payload_type=rng.choice(pts), ssrc=rng.choice(ssrcs)))
        else:
            r.route_rtcp(_rtcp(rng, ssrcs))
    return r


def _rtcp(rng, ssrcs):
    from aiortc import rtp
    k = rng.choice(["sr", "rr", "bye", "nack", "pli", "remb", "remb"])
    info = lambda: rtp.RtcpReceiverInfo(ssrc=rng.choice(ssrcs), fraction_lost=0, packets_lost=0, highest_sequence=0,  # noqa: E731
                                        jitter=0, lsr=0, dlsr=0)
    if k == "sr":
        return rtp.RtcpSrPacket(ssrc=rng.choice(ssrcs), sender_info=rtp.RtcpSenderInfo(0, 0, 0, 0),
                                reports=[info() for _ in range(rng.choice([0, 1, 2]))])
    if k == "rr":
        return rtp.RtcpRrPacket(ssrc=rng.choice(ssrcs), reports=[info() for _ in range(rng.choice([0, 1, 2]))])
    if k == "bye":
        return rtp.RtcpByePacket(sources=rng.sample(ssrcs, rng.choice([0, 1, 2])))
    if k == "nack":
        return rtp.RtcpRtpfbPacket(fmt=1, ssrc=0, media_ssrc=rng.choice(ssrcs), lost=[1])
    if k == "pli":
        return rtp.RtcpPsfbPacket(fmt=1, ssrc=0, media_ssrc=rng.choice(ssrcs))
    return rtp.RtcpPsfbPacket(fmt=15, ssrc=0, media_ssrc=rng.choice([0, 0] + ssrcs),
                              fci=rtp.pack_remb_fci(rng.choice([0, 1000, 1 << 20]), rng.sample(ssrcs, rng.choice([0, 1, 2, 3]))))


def RTCPeerConnection(rng, inst):
    """offer/answer between two real peer connections with randomly damaged descriptions and out-of-order calls;
    every set*Description passes through __validate_description"""
    import asyncio
    from aiortc import RTCPeerConnection as PC, RTCSessionDescription as SD

    def damage(sdp_text):
        lines = sdp_text.split("\r\n")
        r = rng.random()
        if r < 0.15:
            lines = [l for l in lines if not l.startswith("a=ice-ufrag")]
        elif r < 0.3:
            lines = [l for l in lines if not l.startswith("a=ice-pwd")]
        elif r < 0.4:
            lines = [l for l in lines if not l.startswith("a=setup")]
        elif r < 0.5:
            lines = [l.replace("a=setup:active", "a=setup:actpass").replace("a=setup:passive", "a=setup:actpass") for l in lines]
        elif r < 0.6:
            lines = [l for l in lines if l != "a=rtcp-mux"]
        elif r < 0.75:
            # drop the last media section
            idx = [i for i, l in enumerate(lines) if l.startswith("m=")]
            if len(idx) > 1:
                lines = lines[:idx[-1]] + [""]
        elif r < 0.85:
            idx = [i for i, l in enumerate(lines) if l.startswith("m=")]
            if idx:
                sec = lines[idx[-1]:]
                lines = lines[:-1] + [x.replace("a=mid:", "a=mid:9") for x in sec if x] + [""]
        return "\r\n".join(lines)

    async def run():
        a, b = PC(), PC()
        last = a
        try:
            if rng.random() < 0.8:
                a.createDataChannel("c")
            if rng.random() < 0.6:
                a.addTransceiver(rng.choice(["audio", "video"]))
            if rng.random() < 0.3:
                a.addTransceiver("audio")
            steps = rng.choice([1, 2, 3, 4, 5])
            offer = await a.createOffer()
            for _ in range(steps):
                op = rng.random()
                try:
                    if op < 0.3:
                        await a.setLocalDescription(offer)
                    elif op < 0.55:
                        txt = a.localDescription.sdp if a.localDescription else offer.sdp
                        await b.setRemoteDescription(SD(sdp=damage(txt) if rng.random() < 0.5 else txt,
                                                        type=rng.choice(["offer", "offer", "answer", "pranswer"])))
                    elif op < 0.8:
                        ans = await b.createAnswer()
                        if rng.random() < 0.5:
                            await b.setLocalDescription(ans)
                        await a.setRemoteDescription(SD(sdp=damage(ans.sdp) if rng.random() < 0.6 else ans.sdp,
                                                        type=rng.choice(["answer", "answer", "pranswer", "offer"])))
                    elif op < 0.9:
                        await rng.choice([a, b]).close()
                    else:
                        await b.setLocalDescription(offer)
                except Exception:
                    pass
        finally:
            for p in (a, b):
                try:
                    await p.close()
                except Exception:
                    pass
        return last

    loop = asyncio.new_event_loop()
    try:
        return loop.run_until_complete(asyncio.wait_for(run(), 20))
    finally:
        loop.close()


class _Stop(Exception):
    pass


def InboundStream(rng, inst):
    from aiortc.rtcsctptransport import InboundStream as IS, DataChunk
    s = IS()
    s.sequence_number = rng.choice([0, 0, 1, 65534, 65535, rng.randrange(65536)])
    tsn0 = rng.choice([0, 1, (1 << 32) - 3, (1 << 32) - 1, rng.randrange(1 << 32)])
    seq = s.sequence_number
    used = set()
    t = tsn0
    for _ in range(rng.choice([0, 1, 2, 3, 4, 6])):
        nfrag = rng.choice([1, 1, 1, 2, 3])
        unordered = rng.random() < 0.2
        mseq = (seq + rng.choice([0, 0, 0, 1, 2, 65535])) % 65536
        chunks = []
        for f in range(nfrag):
            c = DataChunk()
            c.flags = (2 if f == 0 else 0) | (1 if f == nfrag - 1 else 0) | (4 if unordered else 0)
            c.tsn = t % (1 << 32)
            c.stream_id = 1
            c.stream_seq = 0 if unordered else mseq
            c.protocol = 51
            c.user_data = bytes(rng.getrandbits(8) for _ in range(rng.choice([1, 2, 3])))
            chunks.append(c)
            t += 1
        if rng.random() < 0.15:
            t += 1          # a TSN that went to another stream
        seq = (mseq + 1) % 65536
        rng.shuffle(chunks) if rng.random() < 0.3 else None
        for c in chunks:
            if rng.random() < 0.15 or c.tsn in used:
                continue    # lost
            used.add(c.tsn)
            s.add_chunk(c)
            if rng.random() < 0.5:
                list(s.pop_messages())
    if rng.random() < 0.2:
        s.prune_chunks(rng.choice([tsn0, (tsn0 + 1) % (1 << 32), (t - 1) % (1 << 32)]))
    return s


def DataChunk(rng, inst):
    from aiortc.rtcsctptransport import DataChunk as DC
    c = DC()
    c.flags = rng.choice([0, 1, 2, 3, 4, 7])
    c.tsn = rng.choice([0, 1, (1 << 32) - 1, rng.randrange(1 << 32)])
    c.stream_id = 1
    c.stream_seq = rng.choice([0, 1, 65535, rng.randrange(65536)])
    c.protocol = 51
    c.user_data = b"x"
    return c


def RTCSctpTransport(rng, inst):
    """send-side state as _send / _receive_sack_chunk leave it: a sent queue of DATA chunks, some of them abandoned"""
    import collections
    from aiortc.rtcsctptransport import RTCSctpTransport as T, DataChunk
    t = T.__new__(T)
    tsn = rng.choice([0, 5, (1 << 32) - 2, rng.randrange(1 << 32)])
    t._last_sacked_tsn = (tsn - 1) % (1 << 32)
    t._advanced_peer_ack_tsn = (tsn - 1) % (1 << 32)
    t._forward_tsn_chunk = None
    q = collections.deque()
    # messages of 1-3 fragments (B/E bits as _send sets them); a prefix of whole messages is abandoned
    nmsg = rng.choice([0, 1, 2, 3, 4])
    mab = rng.randrange(nmsg + 1)
    seqs = {1: rng.choice([0, 65534, 65535]), 2: rng.choice([0, 7, 65535])}
    n = 0
    for mi_ in range(nmsg):
        sid = rng.choice([1, 1, 2])
        unordered = 4 if rng.random() < 0.25 else 0
        frags = rng.choice([1, 1, 2, 3])
        maxrt = rng.choice([None, None, 0, 1])
        for fi_ in range(frags):
            c = DataChunk()
            c.flags = unordered | (2 if fi_ == 0 else 0) | (1 if fi_ == frags - 1 else 0)
            c.tsn = (tsn + n) % (1 << 32)
            c.stream_id = sid
            c.stream_seq = seqs[sid]
            c.protocol = 51
            c.user_data = b"x"
            c._abandoned = mi_ < mab
            c._acked = False
            c._retransmit = (not c._abandoned) and rng.random() < 0.3
            c._max_retransmits = maxrt
            c._sent_count = rng.choice([1, 1, 2])
            c._expiry = rng.choice([None, None, 0.0, 4e9])
            c._sent_time = None
            c._misses = 0
            c._book_size = 1
            q.append(c)
            n += 1
        if not unordered:
            seqs[sid] = (seqs[sid] + 1) % 65536
    t._sent_queue = q
    if q and rng.random() < 0.5:
        # the retransmission path asks whether a chunk is to be given up (judged by the scenario search for that unit)
        try:
            t._maybe_abandon(rng.choice(list(q)))
        except Exception:
            pass
    # data-channel side: a table of registered channels (ids of one parity, as the role fixes it) and an empty queue
    from aiortc.rtcdatachannel import RTCDataChannel as CH, RTCDataChannelParameters as P
    t._data_channels = {}
    par = rng.choice([0, 1])
    for sid in rng.sample([par, par + 2, par + 4, par + 6, 65534 + par - 2 * par], rng.randrange(4)):
        ch = CH.__new__(CH)
        ch._RTCDataChannel__parameters = P(label=rng.choice(["", "a", "\u00e9", "\u65e5\u672c"]), protocol=rng.choice(["", "p"]),
                                           ordered=rng.random() < 0.5, id=sid,
                                           maxRetransmits=rng.choice([None, None, 0, 3]))
        ch._RTCDataChannel__id = sid
        ch._RTCDataChannel__readyState = rng.choice(["connecting", "open", "open", "closing"])
        ch._RTCDataChannel__bufferedAmount = rng.choice([0, 0, 5])
        ch._RTCDataChannel__bufferedAmountLowThreshold = rng.choice([0, 4])
        ch._RTCDataChannel__transport = t
        ch._RTCDataChannel__send_open = False
        t._data_channels[sid] = ch
    t._data_channel_queue = collections.deque()
    t._data_channel_id = par
    t._association_state = rng.choice([T.State.ESTABLISHED, T.State.ESTABLISHED, T.State.CLOSED])
    # established with a non-empty outbound queue (back-pressure): _data_channel_flush leaves everything queued, so
    # units that await it can run on this partial object without the whole send path
    t._outbound_queue = collections.deque([DataChunk()] if t._association_state == T.State.ESTABLISHED else [])
    t._outbound_stream_seq = {}
    if t._data_channels and rng.random() < 0.4:
        # user messages waiting to be flushed, for channels with and without a packet lifetime; nothing in the way
        chans = list(t._data_channels.values())
        for ch_ in chans:
            if rng.random() < 0.5:
                ch_._RTCDataChannel__parameters.maxPacketLifeTime = rng.choice([0, 50, 3000])
                ch_._RTCDataChannel__parameters.maxRetransmits = None
        for _ in range(rng.randrange(1, 4)):
            ch_ = rng.choice(chans)
            data_ = rng.choice([b"x", b"hello", b""])
            t._data_channel_queue.append((ch_, rng.choice([51, 53, 50]), data_))
            ch_._RTCDataChannel__bufferedAmount += len(data_)
        t._outbound_queue = collections.deque()
        if rng.random() < 0.7:
            import asyncio
            try:
                _run_coro(t._data_channel_flush())
            except Exception:
                pass
    t._reconfig_queue = []
    t._reconfig_request = None
    t._reconfig_request_seq = tsn
    t._reconfig_response_seq = 0
    t._local_tsn = (tsn + n) % (1 << 32)
    from aiortc.rtcsctptransport import InboundStream as IS
    t._inbound_streams = {}
    for sid in list(t._data_channels) + [8]:
        if rng.random() < 0.6:
            st_ = IS()
            st_.sequence_number = rng.choice([0, 1, 7, 65535])
            t._inbound_streams[sid] = st_
    t._last_received_tsn = rng.choice([0, 9, (1 << 32) - 3, (1 << 32) - 2, (1 << 32) - 1])
    # TSNs received out of order: a few of the next numbers after the cumulative point (which may lie across the wrap)
    t._sack_misordered = set((t._last_received_tsn + d) % (1 << 32) for d in rng.sample([2, 3, 4, 5], rng.randrange(4)))
    t._sack_duplicates = []
    t._sack_needed = False
    t._advertised_rwnd = 131072
    if rng.random() < 0.6:
        for d in rng.sample([1, 2, 3, 0, 6], rng.randrange(1, 4)):
            try:
                t._mark_received((t._last_received_tsn + d) % (1 << 32))
            except Exception:
                pass
    if t._association_state == T.State.ESTABLISHED and rng.random() < 0.3:
        # the peer resets some of its outgoing streams (judged by the scenario search for that unit)
        import asyncio
        from aiortc.rtcsctptransport import StreamResetOutgoingParam as SRO
        ids = [k for k in list(t._inbound_streams) + list(t._data_channels) if rng.random() < 0.7]
        req = SRO(request_sequence=rng.choice([0, 77, (1 << 32) - 1]), response_sequence=0,
                  last_tsn=rng.choice([t._last_received_tsn, (t._last_received_tsn + 5) % (1 << 32)]), streams=ids)
        try:
            _run_coro(t._receive_reconfig_param(req))
        except Exception:
            pass
    if t._data_channels and rng.random() < 0.3:
        # a DATA_CHANNEL_ACK from the peer for one of the registered channels, whatever state it is in by now
        import asyncio
        try:
            _run_coro(t._data_channel_receive(rng.choice(list(t._data_channels)), 50, b"\x02"))
        except Exception:
            pass
    if t._data_channels and rng.random() < 0.3:
        # a user message from the peer for one of the registered channels: text, binary, empty text, empty binary
        pp_, data_ = rng.choice([(51, "h\u00e9".encode()), (51, b"x"), (53, b"\x00\xff"), (56, b"\x00"), (57, b"\x00")])
        try:
            _run_coro(t._data_channel_receive(rng.choice(list(t._data_channels)), pp_, data_))
        except Exception:
            pass
    if rng.random() < 0.3:
        # a FORWARD-TSN from the peer (judged by the scenario search for that unit): cumulative point moved ahead, possibly
        # across the wrap, naming some streams with the last skipped stream sequence number
        import asyncio
        from aiortc.rtcsctptransport import ForwardTsnChunk as FT
        ft = FT()
        ft.cumulative_tsn = (t._last_received_tsn + rng.choice([0, 1, 2, 3, (1 << 32) - 1])) % (1 << 32)
        ft.streams = [(sid_, rng.choice([0, 5, 65534, 65535])) for sid_ in list(t._inbound_streams)[:2] + [9] if rng.random() < 0.7]
        try:
            _run_coro(t._receive_forward_tsn_chunk(ft))
        except Exception:
            pass
    # stream resets: some registered channels are closing; the first few are in an outstanding request, the rest queued
    if t._association_state == T.State.ESTABLISHED and t._data_channels and rng.random() < 0.6:
        from aiortc.rtcsctptransport import StreamResetOutgoingParam, StreamResetResponseParam
        ids = list(t._data_channels)
        rng.shuffle(ids)
        k = rng.randrange(1, len(ids) + 1)
        closing = ids[:k]
        for sid in closing:
            t._data_channels[sid]._RTCDataChannel__readyState = "closing"
        cut = rng.randrange(1, k + 1)
        t._reconfig_request = StreamResetOutgoingParam(request_sequence=(tsn - 1) % (1 << 32), response_sequence=0,
                                                       last_tsn=(tsn - 1) % (1 << 32), streams=closing[:cut])
        t._reconfig_queue = closing[cut:]
        if rng.random() < 0.5:
            # the peer's response arrives (judged by the scenario search when this method is the unit under replay)
            import asyncio
            resp = StreamResetResponseParam(response_sequence=rng.choice([t._reconfig_request.request_sequence] * 3 + [5]), result=1)
            try:
                _run_coro(t._receive_reconfig_param(resp))
            except Exception:
                pass
    return t


def AnyRtcp(rng, inst):
    return _rtcp(rng, [0, 1, 2, 1234, (1 << 32) - 1])


BUILDERS = {"RtpRouter": RtpRouter, "RTCSctpTransport": RTCSctpTransport, "InboundStream": InboundStream, "RTCPeerConnection": RTCPeerConnection, "NackGenerator": NackGenerator, "JitterBuffer": JitterBuffer, "RtpPacket": RtpPacket}
