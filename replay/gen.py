"""Boundary-biased input generation from contract type strings (replay fallback search and
the bounded stand-in).  Pure python, runs under /venv/bin/python."""
from __future__ import annotations

import random

BOUNDS = [0, 1, 2, 3, 4, 7, 8, 15, 16, 17, 23, 24, 31, 32, 63, 64, 100, 127, 128, 129, 255, 256, 1199, 1200, 1201,
          1297, 1298, 1299, 1300, 1301, 32767, 32768, 65534, 65535, 65536, 65537, (1 << 23) - 1, 1 << 23,
          (1 << 24) - 1, (1 << 31) - 1, 1 << 31, (1 << 32) - 2, (1 << 32) - 1, 1 << 32, (1 << 64) - 1]


def gen_int(rng):
    r = rng.random()
    if r < 0.5:
        v = rng.choice(BOUNDS)
    elif r < 0.8:
        v = rng.randrange(0, 300)
    else:
        v = rng.getrandbits(rng.choice([8, 16, 24, 32, 33, 64]))
    if rng.random() < 0.1:
        v = -v
    return v


def gen_bytes(rng, maxlen=64):
    r = rng.random()
    if r < 0.15:
        n = 0
    elif r < 0.7:
        n = rng.randrange(0, 16)
    else:
        n = rng.randrange(0, maxlen)
    mode = rng.random()
    if mode < 0.3:
        return bytes(rng.choice([0, 1, 2, 4, 255, 128, 0x80, 0xBE, 0xDE, 0x10]) for _ in range(n))
    return bytes(rng.getrandbits(8) for _ in range(n))


def split_args(s):
    out, depth, cur = [], 0, ""
    for ch in s:
        if ch == "[":
            depth += 1
        if ch == "]":
            depth -= 1
        if ch == "," and depth == 0:
            out.append(cur)
            cur = ""
        else:
            cur += ch
    if cur.strip():
        out.append(cur)
    return [x.strip() for x in out]


def gen(ttxt: str, rng, classes=None, depth=0):
    t = ttxt.strip()
    if t == "int":
        return gen_int(rng)
    if t == "bool":
        return rng.random() < 0.5
    if t in ("float", "real"):
        return rng.choice([0.0, 1.0, 0.5, 1e-9, 1e9, float(gen_int(rng))])
    if t == "bytes":
        return {"$bytes": gen_bytes(rng).hex()}
    if t == "str":
        return rng.choice(["", "a", "é", "日本", "chat", "x" * 20, "ééa"])
    if t in ("none", "None"):
        return None
    if t.startswith("opt[") or t.startswith("Optional["):
        inner = t[t.index("[") + 1:-1]
        return None if rng.random() < 0.3 else gen(inner, rng, classes, depth)
    if t.startswith(("list[", "seq[", "deque[")):
        inner = t[t.index("[") + 1:-1]
        n = rng.choice([0, 0, 1, 1, 2, 3, 5, 17])
        return [gen(inner, rng, classes, depth + 1) for _ in range(n)]
    if t.startswith(("dict[", "Dict[")):
        kt, vt = split_args(t[t.index("[") + 1:-1])
        n = rng.choice([0, 1, 2, 3])
        return {"$dict": [[gen(kt, rng, classes, depth + 1), gen(vt, rng, classes, depth + 1)] for _ in range(n)]}
    if t.startswith(("set[", "Set[")):
        inner = t[t.index("[") + 1:-1]
        return {"$set": [gen(inner, rng, classes, depth + 1) for _ in range(rng.choice([0, 1, 2, 3]))]}
    if t in ("any", "Any"):
        return {"$opaque": "obj%d" % rng.randrange(4)}
    if t.startswith("tuple["):
        return {"$tuple": [gen(x, rng, classes, depth + 1) for x in split_args(t[6:-1])]}
    if "." in t and t.replace(".", "").replace("_", "").isalnum():
        # member of an enumeration nested in a class (RTCSctpTransport.State): by position, as the prover numbers them
        return {"$enum": t, "index": rng.randrange(1, 9)}
    if classes and t in classes:
        fields = classes[t]
        out = {"$class": t}
        for k, ft in fields.items():
            if depth >= 3 and not (ft.replace("opt[", "").rstrip("]") in ("int", "bool", "str", "bytes", "float")):
                continue       # nesting limit: deeper objects carry their primitive fields only
            out[k] = gen(ft, rng, classes, depth + 1)
        return out
    return None
