#!/bin/sh
# Offline setup: nothing is built; verify the tools the checks need are present.
cd "$(dirname "$0")" || exit 1
command -v python3-vt >/dev/null || { echo "python3-vt missing"; exit 1; }
python3-vt -c "import z3; print('z3', z3.get_version_string())" || exit 1
test -x /venv/bin/python || { echo "/venv/bin/python missing"; exit 1; }
/venv/bin/python -c "import aiortc, os; print('aiortc from', os.path.dirname(aiortc.__file__))" || exit 1
mkdir -p evidence/replay
exit 0
